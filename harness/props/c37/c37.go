// Package c37 checks property C37: an interchain-accounts host executes a packet's messages only if every
// message type is on the host allow list and every signer of every message is the interchain account
// registered for the packet's (connection, controller port); execution is all-or-nothing and no message can
// act on behalf of another account.
//
// Technique: fault / position enumeration over the real handlers. For a fixed open ICA channel every message
// list up to a length bound over a small alphabet of message shapes is sent with the real MsgSendTx on the
// controller chain, relayed (commit + client update + MsgRecvPacket with a real proof) to the host chain on a
// fork of the same base world, and judged by the complete store diff of the host chain and the acknowledgement
// against a reference written from the statement (authorisation predicate + sequential bank ledger).
package c37

import (
	"bytes"
	"encoding/json"
	"fmt"
	"sort"
	"strconv"
	"strings"

	"github.com/cosmos/gogoproto/proto"

	sdkmath "cosmossdk.io/math"

	"github.com/cosmos/cosmos-sdk/crypto/keys/ed25519"
	sdk "github.com/cosmos/cosmos-sdk/types"
	authtypes "github.com/cosmos/cosmos-sdk/x/auth/types"
	banktypes "github.com/cosmos/cosmos-sdk/x/bank/types"
	stakingtypes "github.com/cosmos/cosmos-sdk/x/staking/types"

	channeltypes "github.com/cosmos/ibc-go/v11/modules/core/04-channel/types"
	host "github.com/cosmos/ibc-go/v11/modules/core/24-host"

	icatypes "github.com/cosmos/ibc-go/v11/modules/apps/27-interchain-accounts/types"

	"verif/harness/core"
	"verif/harness/ksim"
	"verif/harness/props/icaworld"
)

func init() { core.Register("C37", "fault_enumeration", run) }

// ---- message alphabet -------------------------------------------------------------------------

type kind int

const (
	kSendICA   kind = iota // bank.MsgSend 40 from the interchain account
	kSendVic               // bank.MsgSend 40 from the victim (a plain funded account on the host)
	kSendOther             // bank.MsgSend 40 from an interchain account registered for ANOTHER controller port
	kSendTwin              // bank.MsgSend 40 from the interchain account registered for the SAME owner / port string on the other controller chain
	kDelegate              // staking.MsgDelegate 30 from the interchain account
	kMultiIV               // bank.MsgMultiSend with two inputs (signers): interchain account, victim
	kMultiVI               // bank.MsgMultiSend with two inputs (signers): victim, interchain account
	kMulti1                // bank.MsgMultiSend with one input (interchain account, 20) and two outputs
	kFail                  // bank.MsgSend 1000 from the interchain account (over its balance)
	nKinds
)

var kindNames = []string{"send(ica)", "send(victim)", "send(other-ica)", "send(twin-ica-of-other-controller)", "delegate(ica)", "multisend(ica+victim)", "multisend(victim+ica)", "multisend(ica->2)", "send(ica,over-balance)"}

func (k kind) String() string { return kindNames[k] }

const (
	icaFunds    = 100
	sendAmt     = 40
	delegateAmt = 30
	multiAmt    = 10
	failAmt     = 1000
)

var (
	urlSend      = sdk.MsgTypeURL(&banktypes.MsgSend{})
	urlMultiSend = sdk.MsgTypeURL(&banktypes.MsgMultiSend{})
	urlDelegate  = sdk.MsgTypeURL(&stakingtypes.MsgDelegate{})
)

func (k kind) typeURL() string {
	switch k {
	case kDelegate:
		return urlDelegate
	case kMultiIV, kMultiVI, kMulti1:
		return urlMultiSend
	}
	return urlSend
}

// allow lists of the host
type allowCfg struct {
	Name string
	List []string
}

var allowCfgs = []allowCfg{
	{"bank+staking", []string{urlSend, urlMultiSend, urlDelegate}},
	{"bank-only", []string{urlSend, urlMultiSend}},
	{"wildcard", []string{"*"}},
	{"empty", []string{}},
	// entries that are string-related to a real type URL but not equal to it (host parameter validation accepts
	// any non-blank string): a proper prefix, an extension, and the wildcard as a suffix. None of them allows anything.
	{"prefix-of-send", []string{urlSend[:len(urlSend)-1], "/cosmos.bank.v1beta1.Msg"}},
	{"extension-of-send", []string{urlSend + "X", urlMultiSend + "/"}},
	{"package-wildcard", []string{"/cosmos.bank.v1beta1.*", "*/"}},
}

// refAllowed is the allow-list predicate written from the host parameter documentation:
// a single "*" entry allows everything, otherwise the type URL must be listed.
func refAllowed(list []string, url string) bool {
	if len(list) == 1 && list[0] == "*" {
		return true
	}
	for _, l := range list {
		if l == url {
			return true
		}
	}
	return false
}

// ---- world ------------------------------------------------------------------------------------

type fixture struct {
	w     *ksim.World
	links [3]*ksim.Link    // link of each channel under test
	icas  [3]*icaworld.ICA // [0]: chain A owner 0, ORDERED, proto3; [1]: chain A owner 1, UNORDERED, proto3json; [2]: chain C owner 0 (same owner string as [0]), ORDERED, proto3
	vic   sdk.AccAddress
	r1    sdk.AccAddress
	r2    sdk.AccAddress
	val   sdk.ValAddress
	pool  [2]sdk.AccAddress // bonded, not bonded
	all   []string          // store names of the host chain
}

const chainC = 2 // second controller chain

// other / twin pick the foreign interchain accounts used by the channel under test.
var (
	otherOf = [3]int{1, 0, 1} // an account registered for another controller port (and, for channel 2, another connection)
	twinOf  = [3]int{2, 2, 0} // channel 0 <-> 2: same owner string registered from the other controller chain
)

func build(c *core.C) *fixture {
	wk := ksim.NewWorker(c.T, 3)
	w := wk.Root()
	icaworld.FixHeaders(w)
	f := &fixture{w: w}
	// Identifier layout (nothing is symmetric, and the two controllers collide on purpose):
	//   A <-> B : A has client 07-tendermint-1 / connection-1 / channels from channel-2, B has 07-tendermint-0 / connection-0 / channel-0,1
	//   C <-> B : C has client 07-tendermint-0 / connection-0 / channel-0,           B has 07-tendermint-1 / connection-1 / channel-2
	// so the controller-side connection id of each link is the host-side connection id of the OTHER link, and the
	// same owner string (hence the same controller port) is registered from A and from C.
	lab := icaworld.SkewedLink(w, icaworld.A, icaworld.B)
	lcb := w.SetupClients(chainC, icaworld.B)
	w.SetupConnection(lcb, 0)
	if lab.ConnA != lcb.ConnB || lcb.ConnA != lab.ConnB || lcb.ConnA == lcb.ConnB || lcb.ClientA == lcb.ClientB {
		panic(fmt.Sprintf("unexpected identifier layout: A-B %+v, C-B %+v", lab, lcb))
	}
	f.links = [3]*ksim.Link{lab, lab, lcb}
	f.icas[0] = icaworld.Open(w, lab, icaworld.Owner(0), icatypes.EncodingProtobuf, channeltypes.ORDERED)
	f.icas[1] = icaworld.Open(w, lab, icaworld.Owner(1), icatypes.EncodingProto3JSON, channeltypes.UNORDERED)
	f.icas[2] = icaworld.Open(w, lcb, icaworld.Owner(0), icatypes.EncodingProtobuf, channeltypes.ORDERED)
	for _, ica := range f.icas {
		if ica.ChanA == ica.ChanB {
			panic("channel identifiers are symmetric: " + ica.ChanA)
		}
	}
	if f.icas[0].Port != f.icas[2].Port || f.icas[0].Address == f.icas[2].Address {
		panic("the two controllers do not collide on the port / do not get distinct accounts")
	}
	f.vic = icaworld.Addr("victim")
	f.r1 = icaworld.Addr("recipient-1")
	f.r2 = icaworld.Addr("recipient-2")
	for _, ica := range f.icas {
		icaworld.Fund(w, icaworld.B, sdk.MustAccAddressFromBech32(ica.Address), icaFunds)
	}
	icaworld.Fund(w, icaworld.B, f.vic, icaFunds)
	icaworld.Fund(w, icaworld.B, f.r1, 1)
	icaworld.Fund(w, icaworld.B, f.r2, 1)
	// a deterministic validator to delegate to
	op := icaworld.Addr("validator-operator")
	icaworld.Fund(w, icaworld.B, op, 1000)
	f.val = sdk.ValAddress(op)
	pk := ed25519.GenPrivKeyFromSecret([]byte("verif-ica-validator")).PubKey()
	cv, err := stakingtypes.NewMsgCreateValidator(f.val.String(), pk, sdk.NewCoin(icaworld.Denom, sdkmath.NewInt(500)),
		stakingtypes.Description{Moniker: "verif"}, stakingtypes.NewCommissionRates(sdkmath.LegacyNewDecWithPrec(1, 1), sdkmath.LegacyNewDecWithPrec(2, 1), sdkmath.LegacyNewDecWithPrec(1, 2)), sdkmath.OneInt())
	if err != nil {
		panic(err)
	}
	ksim.MustOK("create validator", w.Tx(icaworld.B, cv))
	f.pool = [2]sdk.AccAddress{authtypes.NewModuleAddress(stakingtypes.BondedPoolName), authtypes.NewModuleAddress(stakingtypes.NotBondedPoolName)}
	f.all = icaworld.AllStoreNames(w, icaworld.B)
	// both clients know the other chain's latest committed state
	for _, l := range []*ksim.Link{lab, lcb} {
		w.Sync(l.B, l.ClientB, l.A)
		w.Sync(l.A, l.ClientA, l.B)
	}
	w.Flatten()
	return f
}

// msg builds the k-th message shape for the channel under test (ci) — `me` is the interchain account of that
// channel, `other` the interchain account registered for the other controller port.
func (f *fixture) msg(k kind, ci int) proto.Message {
	me, other, twin := f.icas[ci].Address, f.icas[otherOf[ci]].Address, f.icas[twinOf[ci]].Address
	coin := func(n int64) sdk.Coins { return icaworld.Coins(n) }
	switch k {
	case kSendICA:
		return &banktypes.MsgSend{FromAddress: me, ToAddress: f.r1.String(), Amount: coin(sendAmt)}
	case kSendVic:
		return &banktypes.MsgSend{FromAddress: f.vic.String(), ToAddress: f.r1.String(), Amount: coin(sendAmt)}
	case kSendOther:
		return &banktypes.MsgSend{FromAddress: other, ToAddress: f.r1.String(), Amount: coin(sendAmt)}
	case kSendTwin:
		return &banktypes.MsgSend{FromAddress: twin, ToAddress: f.r1.String(), Amount: coin(sendAmt)}
	case kDelegate:
		return &stakingtypes.MsgDelegate{DelegatorAddress: me, ValidatorAddress: f.val.String(), Amount: sdk.NewCoin(icaworld.Denom, sdkmath.NewInt(delegateAmt))}
	case kMultiIV:
		return &banktypes.MsgMultiSend{Inputs: []banktypes.Input{{Address: me, Coins: coin(multiAmt)}, {Address: f.vic.String(), Coins: coin(multiAmt)}},
			Outputs: []banktypes.Output{{Address: f.r1.String(), Coins: coin(2 * multiAmt)}}}
	case kMultiVI:
		return &banktypes.MsgMultiSend{Inputs: []banktypes.Input{{Address: f.vic.String(), Coins: coin(multiAmt)}, {Address: me, Coins: coin(multiAmt)}},
			Outputs: []banktypes.Output{{Address: f.r1.String(), Coins: coin(2 * multiAmt)}}}
	case kMulti1:
		return &banktypes.MsgMultiSend{Inputs: []banktypes.Input{{Address: me, Coins: coin(2 * multiAmt)}},
			Outputs: []banktypes.Output{{Address: f.r1.String(), Coins: coin(multiAmt)}, {Address: f.r2.String(), Coins: coin(multiAmt)}}}
	case kFail:
		return &banktypes.MsgSend{FromAddress: me, ToAddress: f.r1.String(), Amount: coin(failAmt)}
	}
	panic("unknown kind")
}

// ---- reference --------------------------------------------------------------------------------

// roles of the tracked accounts in the reference ledger
const (
	aMe = iota
	aOther
	aTwin
	aVictim
	aR1
	aR2
	aPools // bonded + not-bonded pool together
	nAccts
)

var acctNames = []string{"interchain-account", "other-interchain-account", "twin-interchain-account", "victim", "recipient-1", "recipient-2", "staking-pools"}

type transfer struct {
	from []int // signers / debited accounts
	amt  []int64
	to   []int
	toAm []int64
}

// effect describes message shape k in terms of the reference ledger: who signs (= is debited) and who is credited.
func effect(k kind) transfer {
	switch k {
	case kSendICA:
		return transfer{[]int{aMe}, []int64{sendAmt}, []int{aR1}, []int64{sendAmt}}
	case kSendVic:
		return transfer{[]int{aVictim}, []int64{sendAmt}, []int{aR1}, []int64{sendAmt}}
	case kSendOther:
		return transfer{[]int{aOther}, []int64{sendAmt}, []int{aR1}, []int64{sendAmt}}
	case kSendTwin:
		return transfer{[]int{aTwin}, []int64{sendAmt}, []int{aR1}, []int64{sendAmt}}
	case kDelegate:
		return transfer{[]int{aMe}, []int64{delegateAmt}, []int{aPools}, []int64{delegateAmt}}
	case kMultiIV:
		return transfer{[]int{aMe, aVictim}, []int64{multiAmt, multiAmt}, []int{aR1}, []int64{2 * multiAmt}}
	case kMultiVI:
		return transfer{[]int{aVictim, aMe}, []int64{multiAmt, multiAmt}, []int{aR1}, []int64{2 * multiAmt}}
	case kMulti1:
		return transfer{[]int{aMe}, []int64{2 * multiAmt}, []int{aR1, aR2}, []int64{multiAmt, multiAmt}}
	case kFail:
		return transfer{[]int{aMe}, []int64{failAmt}, []int{aR1}, []int64{failAmt}}
	}
	panic("unknown kind")
}

type verdict struct {
	Executed bool
	Reason   string // "", "type-not-allowed", "foreign-signer", "execution-failed"
	At       int    // index of the first offending message
	Bal      [nAccts]int64
}

// judge is the reference: the statement's authorisation predicate followed by a sequential ledger.
func judge(allow []string, msgs []kind, start [nAccts]int64) verdict {
	v := verdict{Bal: start, At: -1}
	// (1) every message type on the allow list and every signer of every message == the registered interchain account
	for i, k := range msgs {
		if !refAllowed(allow, k.typeURL()) {
			v.Reason, v.At = "type-not-allowed", i
			return v
		}
		for _, s := range effect(k).from {
			if s != aMe {
				v.Reason, v.At = "foreign-signer", i
				return v
			}
		}
	}
	// (2) all messages take effect, in order, or none
	bal := start
	for i, k := range msgs {
		e := effect(k)
		for j, a := range e.from {
			if bal[a] < e.amt[j] {
				v.Reason, v.At = "execution-failed", i
				return v
			}
			bal[a] -= e.amt[j]
		}
		for j, a := range e.to {
			bal[a] += e.toAm[j]
		}
	}
	v.Executed = true
	v.Bal = bal
	return v
}

// ---- evaluation -------------------------------------------------------------------------------

// Case is one enumerated packet (also the replay artefact).
type Case struct {
	Channel int    `json:"channel"` // 0: A owner0 ORDERED/proto3, 1: A owner1 UNORDERED/proto3json, 2: C owner0 ORDERED/proto3
	Allow   int    `json:"allow"`
	Kinds   []kind `json:"kinds"`
}

func (cs Case) String() string {
	s := make([]string, len(cs.Kinds))
	for i, k := range cs.Kinds {
		s[i] = k.String()
	}
	return fmt.Sprintf("channel=%d allow=%s msgs=[%s]", cs.Channel, allowCfgs[cs.Allow].Name, strings.Join(s, ", "))
}

func (cs Case) key() string {
	s := make([]string, len(cs.Kinds))
	for i, k := range cs.Kinds {
		s[i] = fmt.Sprint(int(k))
	}
	return fmt.Sprintf("ch%d/%s/%s", cs.Channel, allowCfgs[cs.Allow].Name, strings.Join(s, "."))
}

func (f *fixture) balances(w *ksim.World, ci int) [nAccts]int64 {
	var b [nAccts]int64
	b[aMe] = icaworld.Balance(w, icaworld.B, sdk.MustAccAddressFromBech32(f.icas[ci].Address))
	b[aOther] = icaworld.Balance(w, icaworld.B, sdk.MustAccAddressFromBech32(f.icas[otherOf[ci]].Address))
	b[aTwin] = icaworld.Balance(w, icaworld.B, sdk.MustAccAddressFromBech32(f.icas[twinOf[ci]].Address))
	b[aVictim] = icaworld.Balance(w, icaworld.B, f.vic)
	b[aR1] = icaworld.Balance(w, icaworld.B, f.r1)
	b[aR2] = icaworld.Balance(w, icaworld.B, f.r2)
	b[aPools] = icaworld.Balance(w, icaworld.B, f.pool[0]) + icaworld.Balance(w, icaworld.B, f.pool[1])
	return b
}

type outcome struct {
	Case      string   `json:"case"`
	Reference string   `json:"reference"`
	Ack       string   `json:"ack"`
	Changed   []string `json:"host_keys_changed"`
}

// eval sends, relays and judges one packet on a fork of base (whose host allow list is already set).
func (f *fixture) eval(c *core.C, base *ksim.World, cs Case) (verdict, *outcome) {
	ica := f.icas[cs.Channel]
	w := base.Fork()
	var msgs []proto.Message
	for _, k := range cs.Kinds {
		msgs = append(msgs, f.msg(k, cs.Channel))
	}
	data, err := icaworld.PacketData(w, msgs, ica.Encoding, "")
	if err != nil {
		c.Broken("cannot serialise %s: %v", cs, err)
		return verdict{}, nil
	}
	l := f.links[cs.Channel]
	pkt, r := icaworld.SendTx(w, l, ica.Owner, uint64(3600*1e9), data, ica.ChanA, ica.ChanB)
	if r.Class != ksim.OK {
		c.Broken("MsgSendTx by the owner failed for %s: %s %v", cs, r, r.Err)
		return verdict{}, nil
	}
	w.Sync(l.B, l.ClientB, l.A)
	start := f.balances(w, cs.Channel)
	ref := judge(allowCfgs[cs.Allow].List, cs.Kinds, start)
	pre := w.DumpStores(icaworld.B, f.all)
	rr := w.RecvV1(l.B, l.A, pkt, w.ClientLatest(l.B, l.ClientB))
	if rr.Class != ksim.OK {
		c.Broken("MsgRecvPacket of a committed ICA packet failed for %s: %s %v", cs, rr, rr.Err)
		return ref, nil
	}
	post := w.DumpStores(icaworld.B, f.all)
	diff := ksim.DiffStores(pre, post)
	viol := func(oracle, text string) {
		c.Violation(oracle+"/"+cs.key(), fmt.Sprintf("%s: %s", cs, text), cs)
	}

	// bookkeeping keys core IBC writes for any received packet
	bookkeeping := map[string]bool{
		"ibc/" + string(host.PacketAcknowledgementKey(pkt.DestinationPort, pkt.DestinationChannel, pkt.Sequence)): true,
		"ibc/" + string(host.PacketReceiptKey(pkt.DestinationPort, pkt.DestinationChannel, pkt.Sequence)):         true,
		"ibc/" + string(host.NextSequenceRecvKey(pkt.DestinationPort, pkt.DestinationChannel)):                    true,
	}
	var effectKeys []string
	for _, k := range diff {
		if !bookkeeping[k] {
			effectKeys = append(effectKeys, k)
		}
	}
	if !contains(diff, "ibc/"+string(host.PacketAcknowledgementKey(pkt.DestinationPort, pkt.DestinationChannel, pkt.Sequence))) {
		c.Broken("no acknowledgement written for %s", cs)
	}

	// acknowledgement
	var ack channeltypes.Acknowledgement
	ackBz := icaworld.AckFromEvents(rr)
	if err := channeltypes.SubModuleCdc.UnmarshalJSON(ackBz, &ack); err != nil {
		c.Broken("cannot decode acknowledgement %q of %s: %v", ackBz, cs, err)
		return ref, nil
	}
	ackOK := ack.Success()
	out := &outcome{Case: cs.String(), Ack: map[bool]string{true: "result", false: "error"}[ackOK], Changed: printable(diff)}
	if ref.Executed {
		out.Reference = "authorised; all messages execute"
	} else {
		out.Reference = fmt.Sprintf("%s at message %d; nothing may happen", ref.Reason, ref.At)
	}

	got := f.balances(w, cs.Channel)
	// no message can act on behalf of another account: the victim and the other interchain account are never debited
	if got[aVictim] < start[aVictim] {
		viol("victim-debited", fmt.Sprintf("victim balance %d -> %d", start[aVictim], got[aVictim]))
	}
	if got[aOther] < start[aOther] {
		viol("other-ica-debited", fmt.Sprintf("balance of the interchain account of another controller port %d -> %d", start[aOther], got[aOther]))
	}
	if got[aTwin] < start[aTwin] {
		viol("twin-ica-debited", fmt.Sprintf("balance of the interchain account registered for the same port on the other controller's connection %d -> %d", start[aTwin], got[aTwin]))
	}
	if !ref.Executed {
		if len(effectKeys) > 0 {
			viol(effectOracle[ref.Reason], fmt.Sprintf("reference says %s at message %d, but the host changed %q", ref.Reason, ref.At, printable(effectKeys)))
		}
		if ackOK {
			viol("success-ack/"+ref.Reason, fmt.Sprintf("reference says %s at message %d, but the acknowledgement reports success", ref.Reason, ref.At))
		}
		return ref, out
	}
	// authorised and executable: ALL messages take effect
	if got != ref.Bal {
		viol("wrong-effect", fmt.Sprintf("balances %v after the packet are %v, reference (sequential effect of all messages) %v", acctNames, got, ref.Bal))
	}
	if !ackOK {
		viol("error-ack-for-executable", fmt.Sprintf("all messages are authorised and executable but the acknowledgement is an error: %s", ack.GetError()))
	} else {
		var tmd sdk.TxMsgData
		if err := proto.Unmarshal(ack.GetResult(), &tmd); err != nil || len(tmd.MsgResponses) != len(cs.Kinds) {
			viol("ack-response-count", fmt.Sprintf("result acknowledgement carries %d message responses for %d messages (err %v)", len(tmd.MsgResponses), len(cs.Kinds), err))
		}
	}
	// the effect is confined to the accounts the reference changes (plus staking bookkeeping when a delegation executed)
	hasDelegate := false
	for _, k := range cs.Kinds {
		if k == kDelegate {
			hasDelegate = true
		}
	}
	for _, k := range effectKeys {
		store, rest, _ := strings.Cut(k, "/")
		switch {
		case store == "bank":
			owner := f.ownerOfBankKey([]byte(rest), cs.Channel)
			if owner < 0 || ref.Bal[owner] == start[owner] {
				viol("effect-outside-reference", fmt.Sprintf("bank key %q changed although the reference does not touch that account", rest))
			}
		case hasDelegate && (store == "staking" || store == "distribution"):
		default:
			viol("effect-outside-reference", fmt.Sprintf("store key %q changed; the reference only moves balances", k))
		}
	}
	return ref, out
}

// ownerOfBankKey maps a bank store key to the tracked account it belongs to (-1: none).
func (f *fixture) ownerOfBankKey(key []byte, ci int) int {
	addrs := [][]byte{aMe: sdk.MustAccAddressFromBech32(f.icas[ci].Address), aOther: sdk.MustAccAddressFromBech32(f.icas[otherOf[ci]].Address),
		aTwin: sdk.MustAccAddressFromBech32(f.icas[twinOf[ci]].Address), aVictim: f.vic, aR1: f.r1, aR2: f.r2}
	for i, a := range addrs {
		if bytes.Contains(key, a) {
			return i
		}
	}
	if bytes.Contains(key, f.pool[0]) || bytes.Contains(key, f.pool[1]) {
		return aPools
	}
	return -1
}

// effectOracle names the violated clause when a packet the reference rejects leaves an effect on the host.
var effectOracle = map[string]string{
	"type-not-allowed": "effect-of-disallowed-type",
	"foreign-signer":   "effect-with-foreign-signer",
	"execution-failed": "non-atomic-effect",
}

func contains(l []string, s string) bool {
	for _, x := range l {
		if x == s {
			return true
		}
	}
	return false
}

func printable(keys []string) []string {
	out := make([]string, len(keys))
	for i, k := range keys {
		q := strconv.QuoteToASCII(k)
		out[i] = q[1 : len(q)-1]
	}
	return out
}

// ---- driver -----------------------------------------------------------------------------------

func run(c *core.C) {
	var f *fixture
	if p := core.Catch(func() { f = build(c) }); p != "" {
		c.Broken("cannot build the ICA world: %s", p)
		return
	}
	// one base world per allow list (set through the real host MsgUpdateParams signed by the authority)
	bases := make([]*ksim.World, len(allowCfgs))
	for i, a := range allowCfgs {
		b := f.w.Fork()
		if r := icaworld.SetHostParams(b, true, a.List); r.Class != ksim.OK {
			c.Broken("host MsgUpdateParams(%v) failed: %s %v", a.List, r, r.Err)
			return
		}
		bases[i] = b
	}
	c.Assume("counterparty consensus, storage commit and validator signing are played by the harness (real IAVL proofs, real signed headers verified by the unmodified 07-tendermint client); one message per transaction, no ante handlers")
	c.Assume("the reference ledger models bank.MsgSend / MsgMultiSend / staking.MsgDelegate as balance moves in one denomination; staking and distribution bookkeeping of an executed delegation is not modelled (only confined to those stores)")
	c.Set("rule", "a packet is non-trivial when the reference lets it execute (all messages take effect) or when it is rejected with a (reason, offending position, list length, allow list, channel) signature not seen before; reasons: type-not-allowed, foreign-signer, execution-failed (the atomicity cases, position >= 1 means earlier messages ran and had to be rolled back)")
	c.Set("alphabet", kindNames)
	var allowNames []string
	for _, a := range allowCfgs {
		allowNames = append(allowNames, a.Name+"="+strings.Join(a.List, ","))
	}
	c.Set("allow_lists", allowNames)
	c.Set("channels", []string{
		fmt.Sprintf("0: controller A owner0, ORDERED, proto3, %s/%s <-> %s/%s", f.links[0].ConnA, f.icas[0].ChanA, f.links[0].ConnB, f.icas[0].ChanB),
		fmt.Sprintf("1: controller A owner1, UNORDERED, proto3json, %s/%s <-> %s/%s", f.links[1].ConnA, f.icas[1].ChanA, f.links[1].ConnB, f.icas[1].ChanB),
		fmt.Sprintf("2: controller C owner0 (same port string as 0), ORDERED, proto3, %s/%s <-> %s/%s", f.links[2].ConnA, f.icas[2].ChanA, f.links[2].ConnB, f.icas[2].ChanB)})

	if c.Replay != "" {
		var cs Case
		if err := c.LoadReplay(&cs); err != nil || cs.Allow < 0 || cs.Allow >= len(allowCfgs) || cs.Channel < 0 || cs.Channel > 2 {
			c.Broken("cannot load replay: %v", err)
			return
		}
		_, out := f.eval(c, bases[cs.Allow], cs)
		bz, _ := json.Marshal(out)
		fmt.Printf("replay %s -> %s\n", cs, bz)
		c.Set("evaluations", 1)
		c.Set("distinct_nontrivial", 1)
		c.Sample(out)
		return
	}

	// maximal list length per channel (0: A/ORDERED/proto3, 1: A/UNORDERED/proto3json, 2: second controller C)
	maxLens := core.Pick(c, []int{3, 2, 2}, []int{4, 3, 4})
	channels := []int{0, 1, 2}
	c.Set("max_messages_per_packet", maxLens)
	evals, executed, rolledBack := 0, 0, 0
	sigs := map[string]bool{}
	sampled := map[string]bool{}
	done := true
	for _, ci := range channels {
		for ai := range allowCfgs {
			for n := 1; n <= maxLens[ci] && done; n++ {
				dims := make([]int, n)
				for i := range dims {
					dims[i] = int(nKinds)
				}
				core.Product(dims, func(idx []int) bool {
					if c.TimeUp() || c.Violations() > 5 {
						done = false
						return false
					}
					cs := Case{Channel: ci, Allow: ai}
					for _, k := range idx {
						cs.Kinds = append(cs.Kinds, kind(k))
					}
					var ref verdict
					var out *outcome
					if p := core.Catch(func() { ref, out = f.eval(c, bases[ai], cs) }); p != "" {
						c.Broken("panic while evaluating %s: %s", cs, p)
						done = false
						return false
					}
					evals++
					class := "executed"
					if !ref.Executed {
						class = fmt.Sprintf("%s@%d", ref.Reason, ref.At)
						sigs[fmt.Sprintf("%s/len%d/%s/ch%d", class, n, allowCfgs[ai].Name, ci)] = true
						if ref.Reason == "execution-failed" && ref.At >= 1 {
							rolledBack++
						}
					} else {
						executed++
					}
					c.Hist("reference_verdicts", class)
					if out != nil {
						c.Hist("acks", out.Ack)
						if !sampled[class] && len(sampled) < 10 {
							sampled[class] = true
							c.Sample(out)
						}
					}
					return true
				})
			}
		}
	}
	var sl []string
	for s := range sigs {
		sl = append(sl, s)
	}
	sort.Strings(sl)
	c.Set("evaluations", evals)
	c.Set("executed_packets", executed)
	c.Set("rolled_back_after_partial_execution", rolledBack)
	c.Set("distinct_rejection_signatures", len(sl))
	c.Set("distinct_nontrivial", executed+len(sl))
	c.Set("exhaustive", done)
}
