// Package c20 checks C20: tendermint consensus states are never overwritten.
package c20

import (
	"verif/harness/core"
	"verif/harness/ksim"
	"verif/harness/props/tmworld"
)

func init() { core.Register("C20", "model_checking", run) }

func run(c *core.C) {
	n := core.Pick(c, 6, 8)
	d := core.Pick(c, 0, 2)
	adv := core.Pick(c, 2, 4)
	advs := core.Pick(c, 1, 2)
	or := tmworld.Oracles{C20: true}
	mk := func(p tmworld.Params, adv, rec int) *tmworld.Scenario {
		return tmworld.New(tmworld.Config{P: p, MaxAdv: adv, MaxRec: rec, Mis: true}, or)
	}
	parts := []ksim.Part{
		{Name: "rev1/updates-only", Sc: mk(tmworld.Params{Rev: 1, Base: 0, N: n}, 0, 1), Cfg: ksim.Config{MaxDepth: 14 + d}, Share: 0.4},
		{Name: "rev1/with-time", Sc: mk(tmworld.Params{Rev: 1, Base: 0, N: n}, adv, 1), Cfg: ksim.Config{MaxDepth: 5 + d}, Share: 0.7},
		{Name: "rev1/heights-46..(47=0x2f)", Sc: mk(tmworld.Params{Rev: 1, Base: 45, N: n}, advs, 1), Cfg: ksim.Config{MaxDepth: 3 + d}, Share: 0.5},
		{Name: "rev47/heights-12031..(12032=0x2f00)", Sc: mk(tmworld.Params{Rev: 47, Base: 12030, N: n}, advs, 1), Cfg: ksim.Config{MaxDepth: 3 + d}},
	}
	ksim.RunParts(c, parts, [][]ksim.Op{
		{{K: "upd", A: []int{3, 0, 1}}, {K: "upd", A: []int{2, 0, 1}}, {K: "upd", A: []int{2, 0, 1}}, {K: "upd", A: []int{2, 1, 1}}},
		{{K: "upd", A: []int{4, 0, 1}}, {K: "adv", A: []int{1}}, {K: "upd", A: []int{6, 0, 4}}, {K: "upd", A: []int{5, 0, 4}}},
	})
	tmworld.Describe(c)
}
