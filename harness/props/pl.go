package props

import (
	"encoding/binary"
	"fmt"
	"sync"
	"time"

	sdk "github.com/cosmos/cosmos-sdk/types"

	clienttypes "github.com/cosmos/ibc-go/v11/modules/core/02-client/types"
	channeltypes "github.com/cosmos/ibc-go/v11/modules/core/04-channel/types"
	channeltypesv2 "github.com/cosmos/ibc-go/v11/modules/core/04-channel/v2/types"
	host "github.com/cosmos/ibc-go/v11/modules/core/24-host"
	hostv2 "github.com/cosmos/ibc-go/v11/modules/core/24-host/v2"
	ibctm "github.com/cosmos/ibc-go/v11/modules/light-clients/07-tendermint"
	ibcmock "github.com/cosmos/ibc-go/v11/testing/mock"
	mockv2 "github.com/cosmos/ibc-go/v11/testing/mock/v2"

	"verif/harness/ksim"
)

// Routes of the packet life-cycle world (all A -> B).
const (
	rV1U    = 0 // v1 UNORDERED mock channel
	rV1O    = 1 // v1 ORDERED mock channel
	rV2A    = 2 // v2 packets addressed to the UNORDERED channel's id (alias)
	rV2C    = 3 // v2 packets between the tendermint clients (registered counterparties)
	nRoutes = 4
)

var routeNames = []string{"v1-unordered", "v1-ordered", "v2-alias", "v2-client"}

// plPkt is a packet the source chain tried to send.
type plPkt struct {
	Route int
	Seq   uint64
	V1    channeltypes.Packet
	V2    channeltypesv2.Packet
	Data  string
}

func (p plPkt) isV2() bool { return p.Route >= rV2A }

// destID is the destination channel / client identifier as the destination chain knows it.
func (p plPkt) destID() string {
	if p.isV2() {
		return p.V2.DestinationClient
	}
	return p.V1.DestinationChannel
}

func (p plPkt) srcID() string {
	if p.isV2() {
		return p.V2.SourceClient
	}
	return p.V1.SourceChannel
}

// plExt is the Go-side bookkeeping of the packet world.
type plExt struct {
	Pkts     []plPkt
	Rev      []plPkt           // packets sent B -> A on the ordered channel
	Commits  [2]int            // commits performed per chain since the root
	AckSeen  map[string]string // C11: first acknowledgement commitment seen per "dest/seq"
	Moved    int               // movers applied (bit set)
	ClosedAt int               // C14: number of ops after which the ordered source end was seen CLOSED (0 = not)
}

func (e *plExt) Clone() ksim.Ext {
	n := &plExt{Pkts: e.Pkts[:len(e.Pkts):len(e.Pkts)], Rev: e.Rev[:len(e.Rev):len(e.Rev)], Commits: e.Commits, ClosedAt: e.ClosedAt, Moved: e.Moved}
	if e.AckSeen != nil {
		n.AckSeen = make(map[string]string, len(e.AckSeen))
		for k, v := range e.AckSeen {
			n.AckSeen[k] = v
		}
	}
	return n
}

func (e *plExt) KeyBytes() []byte {
	var out []byte
	for _, p := range e.Pkts {
		out = append(out, byte(p.Route))
		out = binary.BigEndian.AppendUint64(out, p.Seq)
		out = append(out, p.Data...)
		out = append(out, 0)
		if p.isV2() {
			out = binary.BigEndian.AppendUint64(out, p.V2.TimeoutTimestamp)
		} else {
			out = binary.BigEndian.AppendUint64(out, p.V1.TimeoutHeight.RevisionHeight)
			out = binary.BigEndian.AppendUint64(out, p.V1.TimeoutTimestamp)
		}
	}
	for _, p := range e.Rev {
		out = binary.BigEndian.AppendUint64(out, p.Seq)
	}
	out = append(out, byte(e.Commits[0]), byte(e.Commits[1]), byte(e.ClosedAt), byte(len(e.Rev)), byte(e.Moved))
	return out
}

// PL is the configurable packet life-cycle scenario on two chains A(0) -> B(1).
type PL struct {
	ksim.Base
	Routes     []int // routes that may send
	MaxSend    int   // packets per route
	MaxCommits int   // commits per chain after the root
	Stale      bool  // relays may use any stored consensus height (else only the latest)
	PastUpdate bool  // client updates to past committed heights too
	Acks       bool
	Timeouts   bool
	Close      bool     // ChanCloseInit on B + TimeoutOnClose
	CrossProto bool     // cross-protocol forgeries (v1 packet relayed as v2 and vice versa)
	DataKinds  []string // payload kinds to send: "ok", "fail", "async"; v1 only: "wok", "wasync", "wfail" (application writes the ack inside the receive callback)
	AsyncAck   bool     // application-level asynchronous acknowledgement writes (also premature / repeated)
	Reverse    int      // number of packets B may send back to A on the ordered channel (C14)
	Sync       bool     // macro step: commit(X) immediately followed by the honest client update on the other chain (replaces commit/update ops)
	CommitOn   []int    // chains that may commit (nil = both)
	UpdateOn   []int    // chains whose client may be updated (nil = both)
	// TimeoutIn lists candidate timeout codes: 0 = far; k in 1..9 = the destination's height k blocks ahead (v1) or the
	// destination's clock k blocks ahead in whole seconds (v2); 10 = exactly the destination's current block height / time;
	// -k = v1 timestamp timeout at the destination's clock k blocks ahead (nanoseconds); 20+k (v2 only) = one second after code k
	TimeoutIn []int
	StepB     time.Duration // block interval of chain B (0 = ksim.BlockStep); a non-integral number of seconds exercises ns->s conversions
	Payloads  int           // payloads per v2 packet (0 = 1), alternating between the two v2 mock applications
	Movers    []string      // one-shot state movers: freezeB / expireB (destination client), freezeA / expireA (source client)
	LatePH    bool          // timeout relays may also claim a proof height one above the client's latest height

	link *ksim.Link
	chU  *ksim.ChanPair
	chO  *ksim.ChanPair

	// oracles
	StepFn func(s *PL, pre *ksim.World, op ksim.Op, r ksim.Result, post *ksim.World) *ksim.Fail
	InvFn  func(s *PL, w *ksim.World) *ksim.Fail
	// PostApply lets a property maintain history variables in the Ext.
	PostApply func(s *PL, w *ksim.World, op ksim.Op, r ksim.Result)
}

func (s *PL) Chains() int { return 2 }

func (s *PL) Init(wk *ksim.Worker) *ksim.World {
	wk.InstallMockObservers()
	w := wk.Root()
	w.Ext = &plExt{}
	// make every identifier differ between the two ends (a dummy client on B, a dummy channel end on A), so that
	// a handler using the wrong end's identifier cannot go unnoticed: A has client 07-tendermint-0 and channels
	// channel-1/channel-2, B has client 07-tendermint-1 and channels channel-0/channel-1
	_, dr := w.CreateClient(1, 0)
	ksim.MustOK("dummy client on B", dr)
	l := w.SetupClients(0, 1)
	w.SetupConnection(l, 0)
	ksim.MustOK("dummy channel on A", w.Tx(0, channeltypes.NewMsgChannelOpenInit("mock", ibcmock.Version, channeltypes.UNORDERED, []string{l.ConnA}, "mock", ksim.Signer)))
	chU := w.SetupChannel(l, "mock", "mock", ibcmock.Version, channeltypes.UNORDERED)
	chO := w.SetupChannel(l, "mock", "mock", ibcmock.Version, channeltypes.ORDERED)
	w.RegisterCounterparties(l)
	// both clients know the other chain's latest committed state
	w.Sync(1, l.ClientB, 0)
	w.Sync(0, l.ClientA, 1)
	plInitMu.Lock()
	s.link, s.chU, s.chO = l, chU, chO
	plInitMu.Unlock()
	w.Obs = nil
	return w
}

var plInitMu sync.Mutex

func ext(w *ksim.World) *plExt { return w.Ext.(*plExt) }

func (s *PL) dataKinds() []string {
	if len(s.DataKinds) == 0 {
		return []string{"ok"}
	}
	return s.DataKinds
}

func dataFor(kind string) []byte {
	switch kind {
	case "fail":
		return ibcmock.MockFailPacketData
	case "async":
		return ibcmock.MockAsyncPacketData
	case "wok":
		return []byte(ksim.WriteInRecvOK)
	case "wasync":
		return []byte(ksim.WriteInRecvAsync)
	case "wfail":
		return []byte(ksim.WriteInRecvFail)
	}
	return ibcmock.MockPacketData
}

func (s *PL) timeoutChoices() []int {
	if len(s.TimeoutIn) == 0 {
		return []int{0}
	}
	return s.TimeoutIn
}

func (s *PL) Ops(w *ksim.World) []ksim.Op {
	e := ext(w)
	var ops []ksim.Op
	sent := make([]int, nRoutes)
	for _, p := range e.Pkts {
		sent[p.Route]++
	}
	for _, r := range s.Routes {
		if sent[r] < s.MaxSend {
			for ki := range s.dataKinds() {
				for _, to := range s.timeoutChoices() {
					ops = append(ops, ksim.Op{K: "send", A: []int{r, ki, to}})
				}
			}
		}
	}
	for ch := 0; ch < 2; ch++ {
		if e.Commits[ch] < s.MaxCommits && has(s.CommitOn, ch) {
			if s.Sync {
				ops = append(ops, ksim.Op{K: "sync", A: []int{ch}})
			} else {
				ops = append(ops, ksim.Op{K: "commit", A: []int{ch}})
			}
		}
	}
	// client updates: dst 1 learns chain 0, dst 0 learns chain 1
	for dst := 0; dst < 2 && !s.Sync; dst++ {
		if !has(s.UpdateOn, dst) {
			continue
		}
		src := 1 - dst
		cid := s.clientOn(dst)
		latest := int64(w.ClientLatest(dst, cid).RevisionHeight)
		top := w.CS[src].H()
		if top > latest {
			ops = append(ops, ksim.Op{K: "update", A: []int{dst, int(top)}})
		}
		if s.PastUpdate {
			for h := top - 1; h > top-4 && h > 2; h-- {
				if !w.HasConsensus(dst, cid, w.Height(src, h)) {
					ops = append(ops, ksim.Op{K: "update", A: []int{dst, int(h)}})
				}
			}
		}
	}
	for i, p := range e.Pkts {
		for _, ph := range s.proofHeights(w, 1) {
			ops = append(ops, ksim.Op{K: "recv", A: []int{i, ph}})
			if s.CrossProto {
				ops = append(ops, ksim.Op{K: "xrecv", A: []int{i, ph}})
			}
		}
		if s.Acks {
			for _, ph := range s.proofHeights(w, 0) {
				ops = append(ops, ksim.Op{K: "ack", A: []int{i, ph}})
			}
		}
		if s.Timeouts {
			phs := s.proofHeights(w, 0)
			if s.LatePH {
				phs = append(phs, phs[0]+1)
			}
			for _, ph := range phs {
				ops = append(ops, ksim.Op{K: "timeout", A: []int{i, ph}})
				if s.Close && !p.isV2() {
					ops = append(ops, ksim.Op{K: "toclose", A: []int{i, ph}})
				}
			}
		}
	}
	if s.Close {
		ops = append(ops, ksim.Op{K: "closeB", A: []int{rV1U}}, ksim.Op{K: "closeB", A: []int{rV1O}})
	}
	for i := range s.Movers {
		if e.Moved&(1<<i) == 0 {
			ops = append(ops, ksim.Op{K: "move", A: []int{i}})
		}
	}
	if s.AsyncAck {
		for i := range e.Pkts {
			ops = append(ops, ksim.Op{K: "wack", A: []int{i, 0}}, ksim.Op{K: "wack", A: []int{i, 1}})
		}
	}
	if len(e.Rev) < s.Reverse {
		ops = append(ops, ksim.Op{K: "rsend"})
	}
	for i := range e.Rev {
		for _, ph := range s.proofHeights(w, 0) {
			ops = append(ops, ksim.Op{K: "rrecv", A: []int{i, ph}})
		}
	}
	return ops
}

func (s *PL) stepB() time.Duration {
	if s.StepB == 0 {
		return ksim.BlockStep
	}
	return s.StepB
}

func (s *PL) step(chain int) time.Duration {
	if chain == 1 {
		return s.stepB()
	}
	return ksim.BlockStep
}

func has(set []int, v int) bool {
	if set == nil {
		return true
	}
	for _, x := range set {
		if x == v {
			return true
		}
	}
	return false
}

func (s *PL) clientOn(chain int) string {
	if chain == 0 {
		return s.link.ClientA
	}
	return s.link.ClientB
}

// proofHeights lists the consensus heights a relayer may use for a message delivered to chain dst.
func (s *PL) proofHeights(w *ksim.World, dst int) []int {
	cid := s.clientOn(dst)
	if !s.Stale {
		return []int{int(w.ClientLatest(dst, cid).RevisionHeight)}
	}
	hs := w.ConsensusHeights(dst, cid)
	var out []int
	for i := len(hs) - 1; i >= 0 && len(out) < 3; i-- { // newest first, at most three
		out = append(out, int(hs[i].RevisionHeight))
	}
	return out
}

func (s *PL) chanFor(route int) *ksim.ChanPair {
	if route == rV1O {
		return s.chO
	}
	return s.chU
}

func (s *PL) v2IDs(route int) (src, dst string) {
	if route == rV2A {
		return s.chU.ChanA, s.chU.ChanB
	}
	return s.link.ClientA, s.link.ClientB
}

func (s *PL) Apply(w *ksim.World, op ksim.Op) ksim.Result {
	r := s.apply(w, op)
	if s.PostApply != nil {
		s.PostApply(s, w, op, r)
	}
	return r
}

func (s *PL) apply(w *ksim.World, op ksim.Op) ksim.Result {
	e := ext(w)
	switch op.K {
	case "send":
		route, kind, to := op.A[0], s.dataKinds()[op.A[1]], op.A[2]
		data := dataFor(kind)
		if route >= rV2A {
			src, dst := s.v2IDs(route)
			var tsec uint64
			switch {
			case to == 0:
				tsec = uint64(w.CS[0].TimeNs()/1e9) + 3600
			case to == 10:
				tsec = uint64(w.CS[1].TimeNs() / 1e9)
			case to > 20:
				tsec = uint64((w.CS[1].TimeNs()+int64(to-20)*int64(s.stepB()))/1e9) + 1
			default:
				// expires when B's clock reaches `to` blocks after B's current block
				tsec = uint64((w.CS[1].TimeNs() + int64(to)*int64(s.stepB())) / 1e9)
			}
			var pls []channeltypesv2.Payload
			for i := 0; i < max(1, s.Payloads); i++ {
				pl := mockv2.NewMockPayload(mockv2.PortIDA, mockv2.PortIDB)
				if i%2 == 1 {
					pl = mockv2.NewMockPayload(mockv2.PortIDB, mockv2.PortIDA)
				}
				pl.Value = data
				pls = append(pls, pl)
			}
			seq, r := w.SendV2(0, src, tsec, ksim.Signer, pls...)
			if r.Class == ksim.OK {
				e.Pkts = append(e.Pkts, plPkt{Route: route, Seq: seq, Data: string(data), V2: channeltypesv2.NewPacket(seq, src, dst, tsec, pls...)})
			}
			return r
		}
		cp := s.chanFor(route)
		th := clienttypes.NewHeight(1, 1_000_000)
		var tts uint64
		switch {
		case to == 10:
			th = w.Height(1, w.CS[1].H())
		case to > 0:
			th = w.Height(1, w.CS[1].H()+int64(to))
		case to < 0:
			th = clienttypes.ZeroHeight()
			tts = uint64(w.CS[1].TimeNs() + int64(-to)*int64(s.stepB()))
		}
		seq, r := w.SendV1(0, cp.PortA, cp.ChanA, th, tts, data)
		if r.Class == ksim.OK {
			e.Pkts = append(e.Pkts, plPkt{Route: route, Seq: seq, Data: string(data), V1: channeltypes.NewPacket(data, seq, cp.PortA, cp.ChanA, cp.PortB, cp.ChanB, th, tts)})
		}
		return r
	case "commit":
		w.Commit(op.A[0], s.step(op.A[0]))
		e.Commits[op.A[0]]++
		return ksim.Result{Class: ksim.OK}
	case "sync":
		ch := op.A[0]
		w.Commit(ch, s.step(ch))
		e.Commits[ch]++
		dst := 1 - ch
		r := w.UpdateLatest(dst, s.clientOn(dst), ch)
		if r.Class != ksim.OK {
			return r // e.g. header from the future: the block is committed, the update has to wait
		}
		return ksim.Result{Class: ksim.OK}
	case "update":
		dst, h := op.A[0], int64(op.A[1])
		src := 1 - dst
		cid := s.clientOn(dst)
		// trust the highest stored consensus height below h
		var trusted clienttypes.Height
		for _, ch := range w.ConsensusHeights(dst, cid) {
			if int64(ch.RevisionHeight) < h {
				trusted = ch
			}
		}
		if trusted.IsZero() {
			return ksim.Result{Class: ksim.ERR, Code: "harness/no-trusted-height"}
		}
		return w.UpdateClient(dst, cid, src, h, trusted)
	case "recv":
		p := e.Pkts[op.A[0]]
		ph := w.Height(0, int64(op.A[1]))
		if p.isV2() {
			return w.RecvV2(1, 0, p.V2, ph)
		}
		return w.RecvV1(1, 0, p.V1, ph)
	case "xrecv":
		// cross-protocol forgery: present the packet under the other protocol with the best proof available
		p := e.Pkts[op.A[0]]
		ph := w.Height(0, int64(op.A[1]))
		snap := w.SnapAt(0, int64(op.A[1]))
		if snap == nil {
			return ksim.Result{Class: ksim.ERR, Code: "harness/no-proof"}
		}
		if p.isV2() {
			// as a v1 packet on the unordered channel with the v2 commitment's proof
			fake := channeltypes.NewPacket([]byte(p.Data), p.Seq, s.chU.PortA, s.chU.ChanA, s.chU.PortB, s.chU.ChanB, clienttypes.NewHeight(1, 1_000_000), 0)
			proof := snap.Proof("ibc", hostv2.PacketCommitmentKey(p.V2.SourceClient, p.Seq))
			r := w.Tx(1, channeltypes.NewMsgRecvPacket(fake, proof, ph, ksim.Signer))
			return noopClassV1(r)
		}
		src, dst := s.v2IDs(rV2A)
		pl := mockv2.NewMockPayload(mockv2.PortIDA, mockv2.PortIDB)
		pl.Value = []byte(p.Data)
		fake := channeltypesv2.NewPacket(p.Seq, src, dst, uint64(w.CS[1].TimeNs()/1e9)+3600, pl)
		proof := snap.Proof("ibc", host.PacketCommitmentKey(p.V1.SourcePort, p.V1.SourceChannel, p.Seq))
		r := w.Tx(1, channeltypesv2.NewMsgRecvPacket(fake, proof, ph, ksim.Signer))
		return noopClassV2Recv(r)
	case "ack":
		p := e.Pkts[op.A[0]]
		ph := w.Height(1, int64(op.A[1]))
		snap := w.SnapAt(1, int64(op.A[1]))
		if p.isV2() {
			ack := s.v2Ack(p)
			if snap != nil {
				stored := snap.Get("ibc", hostv2.PacketAcknowledgementKey(p.V2.DestinationClient, p.Seq))
				for _, a := range asyncAcks {
					cand := channeltypesv2.Acknowledgement{AppAcknowledgements: [][]byte{a}}
					if string(channeltypesv2.CommitAcknowledgement(cand)) == string(stored) {
						ack = cand
					}
				}
			}
			return w.AckV2(0, 1, p.V2, ack, ph)
		}
		ack := s.v1Ack(p)
		if snap != nil {
			stored := snap.Get("ibc", host.PacketAcknowledgementKey(p.V1.DestinationPort, p.V1.DestinationChannel, p.Seq))
			for _, a := range asyncAcks {
				cand := channeltypes.NewResultAcknowledgement(a).Acknowledgement()
				if string(channeltypes.CommitAcknowledgement(cand)) == string(stored) {
					ack = cand
				}
			}
		}
		return w.AckV1(0, 1, p.V1, ack, ph)
	case "timeout":
		p := e.Pkts[op.A[0]]
		ph := w.Height(1, int64(op.A[1]))
		if p.isV2() {
			return w.TimeoutV2(0, 1, p.V2, ph)
		}
		return w.TimeoutV1(0, 1, p.V1, s.chanFor(p.Route).Order, ph)
	case "toclose":
		p := e.Pkts[op.A[0]]
		ph := w.Height(1, int64(op.A[1]))
		return w.TimeoutOnCloseV1(0, 1, p.V1, s.chanFor(p.Route).Order, ph)
	case "closeB":
		cp := s.chanFor(op.A[0])
		return w.Tx(1, channeltypes.NewMsgChannelCloseInit(cp.PortB, cp.ChanB, ksim.Signer))
	case "move":
		e.Moved |= 1 << op.A[0]
		m := s.Movers[op.A[0]]
		on := 1 // chain holding the client that is moved
		if m == "freezeA" || m == "expireA" {
			on = 0
		}
		of := 1 - on
		if m == "expireA" || m == "expireB" {
			w.Commit(on, ksim.TrustingPeriod+time.Second)
			return ksim.Result{Class: ksim.OK}
		}
		h := w.CS[of].H()
		trusted := w.ClientLatest(on, s.clientOn(on))
		if int64(trusted.RevisionHeight) >= h {
			w.Commit(of, s.step(of))
			h = w.CS[of].H()
		}
		blk, _ := w.CS[of].Block(h)
		vs := w.W.Vals
		h1, err1 := ksim.SignHeader(w.RawHeader(of, h, blk.Time, []byte("fork-one-app-hash-0000000000000001"), vs.Set, vs.Set), vs, trusted, vs.Set)
		h2, err2 := ksim.SignHeader(w.RawHeader(of, h, blk.Time, []byte("fork-two-app-hash-0000000000000002"), vs.Set, vs.Set), vs, trusted, vs.Set)
		if err1 != nil || err2 != nil {
			panic("cannot sign misbehaviour headers")
		}
		msg, err := clienttypes.NewMsgUpdateClient(s.clientOn(on), ibctm.NewMisbehaviour(s.clientOn(on), h1, h2), ksim.Signer)
		if err != nil {
			panic(err)
		}
		return w.Tx(on, msg)
	case "wack":
		// the destination application writes an acknowledgement through its asynchronous path
		p := e.Pkts[op.A[0]]
		k := w.W.Chains[1].App.IBCKeeper
		if p.isV2() {
			ack := channeltypesv2.Acknowledgement{AppAcknowledgements: [][]byte{asyncAcks[op.A[1]]}}
			return w.Do(1, func(ctx sdk.Context) error {
				return k.ChannelKeeperV2.WriteAcknowledgement(ctx, p.V2.DestinationClient, p.Seq, ack)
			})
		}
		return w.Do(1, func(ctx sdk.Context) error {
			return k.ChannelKeeper.WriteAcknowledgement(ctx, p.V1, channeltypes.NewResultAcknowledgement(asyncAcks[op.A[1]]))
		})
	case "rsend":
		cp := s.chO
		th := clienttypes.NewHeight(1, 1_000_000)
		seq, r := w.SendV1(1, cp.PortB, cp.ChanB, th, 0, ibcmock.MockPacketData)
		if r.Class == ksim.OK {
			e.Rev = append(e.Rev, plPkt{Route: rV1O, Seq: seq, Data: string(ibcmock.MockPacketData), V1: channeltypes.NewPacket(ibcmock.MockPacketData, seq, cp.PortB, cp.ChanB, cp.PortA, cp.ChanA, th, 0)})
		}
		return r
	case "rrecv":
		p := e.Rev[op.A[0]]
		return w.RecvV1(0, 1, p.V1, w.Height(1, int64(op.A[1])))
	}
	panic("unknown op " + op.K)
}

func noopClassV1(r ksim.Result) ksim.Result {
	if r.Class == ksim.OK {
		var resp channeltypes.MsgRecvPacketResponse
		if err := resp.Unmarshal(r.Resp); err == nil && resp.Result == channeltypes.NOOP {
			r.Class = ksim.NOOP
		}
	}
	return r
}

func noopClassV2Recv(r ksim.Result) ksim.Result {
	if r.Class == ksim.OK {
		var resp channeltypesv2.MsgRecvPacketResponse
		if err := resp.Unmarshal(r.Resp); err == nil && resp.Result == channeltypesv2.NOOP {
			r.Class = ksim.NOOP
		}
	}
	return r
}

var asyncAcks = [][]byte{[]byte("async-ack-1"), []byte("async-ack-2")}

// ackCommitment returns the acknowledgement commitment stored on chain B for p ("" if none).
func (s *PL) ackCommitment(w *ksim.World, p plPkt) string {
	ctx := w.CS[1].Ctx
	k := w.W.Chains[1].App.IBCKeeper
	if p.isV2() {
		return string(k.ChannelKeeperV2.GetPacketAcknowledgement(ctx, p.V2.DestinationClient, p.Seq))
	}
	bz, _ := k.ChannelKeeper.GetPacketAcknowledgement(ctx, p.V1.DestinationPort, p.V1.DestinationChannel, p.Seq)
	return string(bz)
}

// v1Ack is the acknowledgement the mock application writes for p.
func (s *PL) v1Ack(p plPkt) []byte {
	if p.Data == string(ibcmock.MockFailPacketData) {
		return ibcmock.MockFailAcknowledgement.Acknowledgement()
	}
	return ibcmock.MockAcknowledgement.Acknowledgement()
}

func (s *PL) v2Ack(p plPkt) channeltypesv2.Acknowledgement {
	if p.Data == string(ibcmock.MockFailPacketData) {
		return channeltypesv2.Acknowledgement{AppAcknowledgements: [][]byte{channeltypesv2.ErrorAcknowledgement[:]}}
	}
	var acks [][]byte
	for range p.V2.Payloads {
		acks = append(acks, mockv2.MockRecvPacketResult.Acknowledgement)
	}
	return channeltypesv2.Acknowledgement{AppAcknowledgements: acks}
}

func (s *PL) Step(pre *ksim.World, op ksim.Op, r ksim.Result, post *ksim.World) *ksim.Fail {
	if s.StepFn != nil {
		return s.StepFn(s, pre, op, r, post)
	}
	return nil
}

func (s *PL) Invariant(w *ksim.World) *ksim.Fail {
	if s.InvFn != nil {
		return s.InvFn(s, w)
	}
	return nil
}

// commitmentPresent reports whether the source chain still stores the commitment of p.
func (s *PL) commitmentPresent(w *ksim.World, p plPkt) bool {
	ctx := w.CS[0].Ctx
	k := w.W.Chains[0].App.IBCKeeper
	if p.isV2() {
		return len(k.ChannelKeeperV2.GetPacketCommitment(ctx, p.V2.SourceClient, p.Seq)) > 0
	}
	return len(k.ChannelKeeper.GetPacketCommitment(ctx, p.V1.SourcePort, p.V1.SourceChannel, p.Seq)) > 0
}

// countEv counts observer events of the given kinds for an id / sequence on a chain.
func countEv(w *ksim.World, chain int, id string, seq uint64, kinds ...string) int {
	n := 0
	for _, e := range w.Obs {
		if e.Chain != chain || e.Seq != seq {
			continue
		}
		eid := e.ID
		if len(eid) > 5 && eid[:5] == "mock/" {
			eid = eid[5:]
		}
		if eid != id {
			continue
		}
		for _, k := range kinds {
			if e.Kind == k {
				n++
			}
		}
	}
	return n
}

func storesUnchanged(pre, post *ksim.World, chain int) (bool, []string) {
	a := pre.DumpStores(chain, ksim.AllStores)
	b := post.DumpStores(chain, ksim.AllStores)
	d := ksim.DiffStores(a, b)
	return len(d) == 0, d
}

var _ = sdk.AccAddress{}
var _ = fmt.Sprint

// macro turns a scenario into its macro-step variant (sync = commit + honest update, fresh proofs only).
func macro(sc *PL) *PL {
	sc.Sync = true
	sc.Stale = false
	sc.PastUpdate = false
	return sc
}
