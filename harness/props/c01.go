package props

import (
	"fmt"

	"verif/harness/core"
	"verif/harness/ksim"
)

// C01: exactly-once delivery under any relay history (v1 unordered, v1 ordered, v2 alias, v2 client).
func init() { core.Register("C01", "model_checking", runC01) }

func c01Scenario(c *core.C, routes []int, maxSend, maxCommits int, kinds ...string) *PL {
	sc := &PL{
		Routes:     routes,
		MaxSend:    maxSend,
		MaxCommits: maxCommits,
		Stale:      true,
		PastUpdate: !c.Quick(),
		CrossProto: true,
		DataKinds:  kinds,
		CommitOn:   []int{0},
		UpdateOn:   []int{1},
	}
	sc.InvFn = func(s *PL, w *ksim.World) *ksim.Fail {
		// every receive callback belongs to a packet the source committed, and runs at most once per (dest, seq)
		type k struct {
			id  string
			seq uint64
		}
		seen := map[k]int{}
		for _, e := range w.Obs {
			if e.Chain != 1 || (e.Kind != "recv" && e.Kind != "recv2") {
				continue
			}
			id := e.ID
			if len(id) > 5 && id[:5] == "mock/" {
				id = id[5:]
			}
			seen[k{id, e.Seq}]++
			ok := false
			for _, p := range ext(w).Pkts {
				if p.destID() == id && p.Seq == e.Seq && ((e.Kind == "recv2") == p.isV2()) {
					ok = true
				}
			}
			if !ok {
				return &ksim.Fail{Key: "recv-of-unsent/" + e.Kind, Text: fmt.Sprintf("application received %s %s seq %d which the source never committed under that protocol", e.Kind, id, e.Seq)}
			}
		}
		for kk, n := range seen {
			if n > 1 {
				return &ksim.Fail{Key: "double-recv", Text: fmt.Sprintf("receive callback ran %d times for (%s, %d)", n, kk.id, kk.seq)}
			}
		}
		return nil
	}
	sc.StepFn = func(s *PL, pre *ksim.World, op ksim.Op, r ksim.Result, post *ksim.World) *ksim.Fail {
		if op.K != "recv" && op.K != "xrecv" {
			return nil
		}
		if r.Class == ksim.NOOP || r.Class == ksim.ERR {
			if same, d := storesUnchanged(pre, post, 1); !same {
				return &ksim.Fail{Key: "noop-changed-state/" + string(r.Class), Text: fmt.Sprintf("%s answered %s but changed keys %q", op, r, d)}
			}
			if len(post.Obs) != len(pre.Obs) {
				return &ksim.Fail{Key: "noop-reached-app", Text: fmt.Sprintf("%s answered %s but reached the application", op, r)}
			}
		}
		if r.Class == ksim.NOOP {
			p := ext(pre).Pkts[op.A[0]]
			if op.K == "recv" && countEv(pre, 1, p.destID(), p.Seq, "recv", "recv2") == 0 {
				// a NOOP for a packet that was never delivered silently drops it
				return &ksim.Fail{Key: "noop-without-delivery", Text: fmt.Sprintf("%s answered NOOP although the application never received (%s,%d)", op, p.destID(), p.Seq)}
			}
		}
		return nil
	}
	return sc
}

func runC01(c *core.C) {
	d := core.Pick(c, 0, 2)
	parts := []ksim.Part{
		{Name: "unordered-channel+alias/all-ack-kinds", Sc: c01Scenario(c, []int{rV1U, rV2A}, 1, 3, "ok", "async", "fail"), Cfg: ksim.Config{MaxDepth: 12 + d}, Share: 0.2},
		{Name: "unordered-channel+alias/2-async-each", Sc: c01Scenario(c, []int{rV1U, rV2A}, 2, 2, "async"), Cfg: ksim.Config{MaxDepth: 11 + d}, Share: 0.25},
		{Name: "ordered-channel", Sc: c01Scenario(c, []int{rV1O}, 2+d/2, 3, "ok", "async"), Cfg: ksim.Config{MaxDepth: 12 + d}, Share: 0.3},
		{Name: "v2-client", Sc: c01Scenario(c, []int{rV2C}, 2+d/2, 3, "ok", "async"), Cfg: ksim.Config{MaxDepth: 12 + d}, Share: 0.4},
		{Name: "all-routes-mixed", Sc: c01Scenario(c, []int{rV1U, rV1O, rV2A, rV2C}, 1, 2, "async"), Cfg: ksim.Config{MaxDepth: 9 + d}},
	}
	ksim.RunParts(c, parts, [][]ksim.Op{
		{{K: "send", A: []int{0, 0, 0}}, {K: "commit", A: []int{0}}, {K: "update", A: []int{1, 13}}, {K: "recv", A: []int{0, 13}}, {K: "recv", A: []int{0, 13}}},
		{{K: "send", A: []int{2, 0, 0}}, {K: "commit", A: []int{0}}, {K: "update", A: []int{1, 13}}, {K: "xrecv", A: []int{0, 13}}, {K: "recv", A: []int{0, 12}}},
	})
	c.Set("alphabet", "send(route in v1-unordered,v1-ordered,v2-alias,v2-client) | commit(A) | update(client on B, height) | recv(packet, any of the 3 newest consensus heights) | xrecv = cross-protocol forgery; every relay stays enabled forever (duplicates, reorders, stale proofs are ordinary paths)")
	c.Assume("counterparty consensus, storage commit and validator signing are played by the harness (real IAVL proofs, real signed headers, verified by the unmodified 07-tendermint client)")
	c.Assume("one message per transaction; ante handlers (signature, redundant-relay decorator) are not part of the explored path")
}
