// Package c17 decides C17: heights are totally ordered (revision first), text round-trips,
// elapsed timeouts stay elapsed at every greater height/time, zero timeouts never elapse.
package c17

import (
	"fmt"
	"math/big"

	clienttypes "github.com/cosmos/ibc-go/v11/modules/core/02-client/types"
	channeltypes "github.com/cosmos/ibc-go/v11/modules/core/04-channel/types"

	"verif/harness/core"
)

func init() { core.Register("C17", "exploration", run) }

// refCmp is the reference order: lexicographic on (revision, height), computed with big.Int.
func refCmp(a, b clienttypes.Height) int {
	ar, br := new(big.Int).SetUint64(a.RevisionNumber), new(big.Int).SetUint64(b.RevisionNumber)
	if c := ar.Cmp(br); c != 0 {
		return c
	}
	return new(big.Int).SetUint64(a.RevisionHeight).Cmp(new(big.Int).SetUint64(b.RevisionHeight))
}

func run(c *core.C) {
	lat := core.Lattice64()
	if c.Quick() {
		lat = core.SmallLattice64()
	}
	var hs []clienttypes.Height
	for _, r := range lat {
		for _, h := range lat {
			hs = append(hs, clienttypes.NewHeight(r, h))
		}
	}
	evals, nontrivial := 0, 0
	distinct := map[string]bool{}
	// pairs: Compare agrees with the reference, helpers agree with Compare, antisymmetry; text round trip
	for _, a := range hs {
		s := a.String()
		p, err := clienttypes.ParseHeight(s)
		evals++
		if err != nil || p != a {
			c.Violation("parse-roundtrip/"+s, fmt.Sprintf("ParseHeight(%q) = %v, %v; want %v", s, p, err, a), map[string]any{"height": s})
		}
		for _, b := range hs {
			evals++
			want := refCmp(a, b)
			got := int(a.Compare(b))
			if got != want {
				c.Violation(fmt.Sprintf("compare/%s/%s", a, b), fmt.Sprintf("Compare(%s,%s)=%d want %d", a, b, got, want), map[string]any{"a": a.String(), "b": b.String()})
			}
			if int(b.Compare(a)) != -got {
				c.Violation(fmt.Sprintf("antisym/%s/%s", a, b), "Compare is not antisymmetric", map[string]any{"a": a.String(), "b": b.String()})
			}
			if a.LT(b) != (want < 0) || a.LTE(b) != (want <= 0) || a.GT(b) != (want > 0) || a.GTE(b) != (want >= 0) || a.EQ(b) != (want == 0) {
				c.Violation(fmt.Sprintf("helpers/%s/%s", a, b), "LT/LTE/GT/GTE/EQ disagree with the reference order", map[string]any{"a": a.String(), "b": b.String()})
			}
			if want != 0 {
				nontrivial++
			}
		}
		if c.TimeUp() {
			break
		}
	}
	distinct["pairs"] = true
	// triples over the small lattice: transitivity
	small := core.SmallLattice64()
	var sh []clienttypes.Height
	for _, r := range small[:core.Pick(c, 6, 10)] {
		for _, h := range small {
			sh = append(sh, clienttypes.NewHeight(r, h))
		}
	}
	for _, a := range sh {
		for _, b := range sh {
			if !a.LTE(b) {
				continue
			}
			for _, d := range sh {
				evals++
				if b.LTE(d) && !a.LTE(d) {
					c.Violation(fmt.Sprintf("transitive/%s/%s/%s", a, b, d), "LTE is not transitive", map[string]any{"a": a.String(), "b": b.String(), "c": d.String()})
				}
			}
		}
		if c.TimeUp() {
			break
		}
	}
	// timeouts: Elapsed equals the reference, is monotone, and zero components never elapse
	ts := core.SmallLattice64()
	refElapsed := func(t channeltypes.Timeout, h clienttypes.Height, now uint64) bool {
		he := !(t.Height.RevisionNumber == 0 && t.Height.RevisionHeight == 0) && refCmp(h, t.Height) >= 0
		te := t.Timestamp != 0 && new(big.Int).SetUint64(now).Cmp(new(big.Int).SetUint64(t.Timestamp)) >= 0
		return he || te
	}
	elapsedCases := 0
	for _, th := range sh {
		for _, tt := range ts {
			t := channeltypes.NewTimeout(th, tt)
			for _, h := range sh {
				for _, now := range ts {
					evals++
					got := t.Elapsed(h, now)
					if got != refElapsed(t, h, now) {
						c.Violation(fmt.Sprintf("elapsed/%s/%d/%s/%d", th, tt, h, now), fmt.Sprintf("Timeout(%s,%d).Elapsed(%s,%d)=%v disagrees with the reference", th, tt, h, now, got), map[string]any{"timeout_height": th.String(), "timeout_ts": tt, "height": h.String(), "now": now})
					}
					if got {
						elapsedCases++
						// monotone: stays elapsed at the next lattice points up
						for _, h2 := range sh {
							if refCmp(h, h2) <= 0 && !t.Elapsed(h2, now) {
								c.Violation(fmt.Sprintf("monotone-h/%s/%d/%s/%s", th, tt, h, h2), "an elapsed timeout is not elapsed at a greater height", map[string]any{"timeout_height": th.String(), "timeout_ts": tt, "height": h.String(), "height2": h2.String(), "now": now})
							}
						}
						for _, n2 := range ts {
							if n2 >= now && !t.Elapsed(h, n2) {
								c.Violation(fmt.Sprintf("monotone-t/%s/%d/%d/%d", th, tt, now, n2), "an elapsed timeout is not elapsed at a greater time", map[string]any{"timeout_height": th.String(), "timeout_ts": tt, "height": h.String(), "now": now, "now2": n2})
							}
						}
					}
				}
			}
		}
		if c.TimeUp() {
			break
		}
	}
	c.Set("evaluations", evals)
	c.Set("distinct_nontrivial", nontrivial+elapsedCases)
	c.Set("rule", "all ordered pairs of heights over Lattice64^2 (quick: 16-point lattice), all triples over a sub-lattice, all (timeout height, timeout timestamp, height, time) combinations over the sub-lattices; non-trivial = pairs of different heights plus timeout combinations that have elapsed")
	c.Set("heights", len(hs))
	c.Sample(map[string]any{"a": hs[1].String(), "b": hs[len(hs)-1].String(), "compare": hs[1].Compare(hs[len(hs)-1])})
	c.Sample(map[string]any{"timeout": "0-0/0", "elapsed_at": "18446744073709551615-18446744073709551615 / 2^64-1", "value": channeltypes.NewTimeout(clienttypes.ZeroHeight(), 0).Elapsed(clienttypes.NewHeight(1<<64-1, 1<<64-1), 1<<64-1)})
	c.Assume("big.Int reference arithmetic is trusted")
}
