// Package c32 checks C32: failed transfers refund exactly the sent amount, exactly once. It runs the
// shared token-world scenario (props/tokenworld) with only the refund oracle armed.
package c32

import (
	"verif/harness/core"
	"verif/harness/props/tokenworld"
)

func init() { core.Register("C32", "model_checking", run) }

func run(c *core.C) {
	tokenworld.Run(c, tokenworld.Arm{C32: true})
	c.Set("oracle", "every transition ack/timeout: the raw bank-store changes (all accounts and supply) of the sending chain are recorded at the send; the first executed timeout or error acknowledgement must credit the sender exactly the sent amount of the sent denomination and its changes must be exactly the inverse of the send's changes; any later executed ack/timeout of the same transfer, any rejected or NOOP relay, and a success acknowledgement must change no balance or supply; a refund that core IBC accepts but the bank refuses for lack of escrowed funds is a violation")
	c.Set("failure_reasons", "timeout by height (v1), by timestamp (v1), by seconds (v2); error acknowledgement because receive is disabled by the authority or the receiver is a blocked module account; native and voucher denominations; v1, v2 alias, v2 client")
}
