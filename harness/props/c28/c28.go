// Package c28 decides C28: the attestations light client accepts an update or a proof only with a
// quorum of valid 65-byte signatures of distinct configured attestors over the domain-separated
// hash of exactly the attestation data; state and packet attestations are not interchangeable;
// membership / non-membership match the attested (hashed path, commitment) list; a conflicting
// timestamp at a stored height freezes the client and a frozen client accepts nothing.
//
// The real module is driven through the 02-client keeper (UpdateClient, VerifyMembership,
// VerifyNonMembership) and, for the frozen case, through the routed LightClientModule itself, on
// cached contexts of a real SimApp chain. The reference is written from the property statement:
// its own sha256 tagging, its own ABI encoder, non-recovering ECDSA verification (decred) against
// the configured public keys, and plain Go maps for the history part.
package c28

import (
	"bytes"
	"crypto/ecdsa"
	"crypto/sha256"
	"encoding/binary"
	"encoding/hex"
	"fmt"
	"math/big"
	"sort"
	"strings"

	"github.com/cosmos/gogoproto/proto"
	secp "github.com/decred/dcrd/dcrec/secp256k1/v4"
	secpecdsa "github.com/decred/dcrd/dcrec/secp256k1/v4/ecdsa"
	ethcrypto "github.com/ethereum/go-ethereum/crypto"
	"golang.org/x/crypto/sha3"

	sdk "github.com/cosmos/cosmos-sdk/types"

	clientkeeper "github.com/cosmos/ibc-go/v11/modules/core/02-client/keeper"
	clienttypes "github.com/cosmos/ibc-go/v11/modules/core/02-client/types"
	commitmenttypesv2 "github.com/cosmos/ibc-go/v11/modules/core/23-commitment/types/v2"
	"github.com/cosmos/ibc-go/v11/modules/core/exported"
	"github.com/cosmos/ibc-go/v11/modules/light-clients/attestations"
	ibctesting "github.com/cosmos/ibc-go/v11/testing"

	"verif/harness/core"
)

func init() { core.Register("C28", "exploration", run) }

// ---- keys -------------------------------------------------------------------------------------

const (
	nKeys    = 5 // keys 0..3 are attestor candidates A1..A4, key 4 is never configured ("unknown signer")
	tagState = byte(0x01)
	tagPkt   = byte(0x02)
)

type attKey struct {
	priv *ecdsa.PrivateKey
	pub  *secp.PublicKey
	addr string
}

func mkKey(i int) attKey {
	d := sha256.Sum256([]byte(fmt.Sprintf("verif-c28-attestor-%d", i)))
	priv, err := ethcrypto.ToECDSA(d[:])
	if err != nil {
		panic(err)
	}
	return attKey{priv: priv, pub: secp.PrivKeyFromBytes(d[:]).PubKey(), addr: ethcrypto.PubkeyToAddress(priv.PublicKey).Hex()}
}

// ---- reference primitives (written from the statement, not from the module) ---------------------

// refDigest is sha256(tag || sha256(data)).
func refDigest(tag byte, data []byte) []byte {
	in := sha256.Sum256(data)
	out := sha256.Sum256(append([]byte{tag}, in[:]...))
	return out[:]
}

func keccak(b []byte) []byte {
	h := sha3.NewLegacyKeccak256()
	h.Write(b)
	return h.Sum(nil)
}

func word(u uint64) []byte {
	b := make([]byte, 32)
	binary.BigEndian.PutUint64(b[24:], u)
	return b
}

// abiState is abi.encode(uint64 height, uint64 timestampSeconds).
func abiState(h, tsSec uint64) []byte { return append(word(h), word(tsSec)...) }

type entry struct{ Path, Commitment []byte } // both 32 bytes

// abiPacket is abi.encode(PacketAttestation{height, (bytes32 path, bytes32 commitment)[]}).
func abiPacket(h uint64, es []entry) []byte {
	out := word(0x20)
	out = append(out, word(h)...)
	out = append(out, word(0x40)...)
	out = append(out, word(uint64(len(es)))...)
	for _, e := range es {
		out = append(out, e.Path...)
		out = append(out, e.Commitment...)
	}
	return out
}

// refVerify is plain ECDSA verification of the (r,s) part of a 65-byte signature.
func refVerify(pub *secp.PublicKey, digest, sig []byte) bool {
	if len(sig) != 65 {
		return false
	}
	var r, s secp.ModNScalar
	if r.SetByteSlice(sig[:32]) || s.SetByteSlice(sig[32:64]) || r.IsZero() || s.IsZero() {
		return false
	}
	return secpecdsa.NewSignature(&r, &s).Verify(digest, pub)
}

// ---- signature letters --------------------------------------------------------------------------

type letter struct {
	Name     string
	Sig      []byte
	Signer   int         // key whose secret produced (r,s); -1 for none
	Proper   bool        // 65 bytes, (r,s) by Signer over the right digest, recovery id one of the four spellings of the right parity
	ValidFor [nKeys]bool // reference: 65 bytes and ECDSA-valid for key i over the right digest (recovery id ignored)
}

func sign(k attKey, digest []byte) []byte {
	sig, err := ethcrypto.Sign(digest, k.priv)
	if err != nil {
		panic(err)
	}
	return sig
}

var curveN = ethcrypto.S256().Params().N

func highS(sig []byte) []byte {
	out := append([]byte{}, sig...)
	s := new(big.Int).SetBytes(sig[32:64])
	s.Sub(curveN, s)
	s.FillBytes(out[32:64])
	out[64] ^= 1
	return out
}

func withV(sig []byte, v byte) []byte {
	out := append([]byte{}, sig...)
	out[64] = v
	return out
}

// buildLetters builds the signature alphabet for verifying `data` under `tag`.
// rich lists the keys that get the full set of malformed variants.
func buildLetters(keys []attKey, data []byte, tag byte, otherData []byte, rich []int, thorough bool) []letter {
	digest := refDigest(tag, data)
	var out []letter
	add := func(name string, sig []byte, signer int, proper bool) {
		l := letter{Name: name, Sig: sig, Signer: signer, Proper: proper}
		for i := range keys {
			l.ValidFor[i] = refVerify(keys[i].pub, digest, sig)
		}
		out = append(out, l)
	}
	for i := 0; i < 4; i++ {
		add(fmt.Sprintf("V%d", i+1), sign(keys[i], digest), i, true)
	}
	add("U", sign(keys[4], digest), 4, true)
	add("Z", make([]byte, 65), -1, false)
	for _, i := range rich {
		base := sign(keys[i], digest)
		n := fmt.Sprint(i + 1)
		add("V27_"+n, withV(base, base[64]+27), i, true)
		add("H"+n, highS(base), i, true)
		add("W"+n, withV(base, base[64]^1), i, false)
		add("X2_"+n, withV(base, 2+base[64]), i, false)
		add("L64_"+n, append([]byte{}, base[:64]...), i, false)
		add("L66_"+n, append(append([]byte{}, base...), 0), i, false)
		add("T"+n, sign(keys[i], refDigest(3-tag, data)), i, false)
		in := sha256.Sum256(data)
		add("I"+n, sign(keys[i], in[:]), i, false)
		add("R"+n, sign(keys[i], refDigest(tag, otherData)), i, false)
		if thorough {
			add("X29_"+n, withV(base, 29+base[64]), i, false)
			add("X255_"+n, withV(base, 255), i, false)
			add("H27_"+n, withV(highS(base), (base[64]^1)+27), i, true)
			raw := sha256.Sum256(append([]byte{tag}, data...))
			add("D"+n, sign(keys[i], raw[:]), i, false) // sha256(tag||data): tag applied to the data, not to its hash
		}
	}
	return out
}

// refSig returns the statement predicate N (at least q distinct configured attestors have a valid
// 65-byte signature over the right digest in the list) and the strict predicate E (additionally
// every element of the list is such a signature and no attestor appears twice).
func refSig(list []letter, n int, q uint32) (nOK, eOK bool) {
	distinct := map[int]bool{}
	for _, l := range list {
		for i := 0; i < n; i++ {
			if l.ValidFor[i] {
				distinct[i] = true
			}
		}
	}
	nOK = q >= 1 && len(distinct) >= int(q)
	eOK = len(list) >= 1 && len(list) >= int(q)
	seen := map[int]bool{}
	for _, l := range list {
		if !l.Proper || l.Signer < 0 || l.Signer >= n || seen[l.Signer] {
			eOK = false
		}
		seen[l.Signer] = true
	}
	return nOK, eOK
}

func names(list []letter) []string {
	out := make([]string, len(list))
	for i, l := range list {
		out[i] = l.Name
	}
	return out
}

func sigBytes(list []letter) [][]byte {
	out := make([][]byte, len(list))
	for i, l := range list {
		out[i] = l.Sig
	}
	return out
}

// sequences calls f with every sequence over 0..k-1 of length 0..maxLen.
func sequences(k, maxLen int, f func(idx []int) bool) {
	for l := 0; l <= maxLen; l++ {
		dims := make([]int, l)
		for i := range dims {
			dims[i] = k
		}
		if l == 0 {
			if !f(nil) {
				return
			}
			continue
		}
		stop := false
		core.Product(dims, func(idx []int) bool {
			if !f(idx) {
				stop = true
				return false
			}
			return true
		})
		if stop {
			return
		}
	}
}

// ---- harness ------------------------------------------------------------------------------------

const (
	initH  = uint64(10)
	initTs = uint64(1_700_000_010) // seconds
	nanos  = uint64(1_000_000_000)
)

type env struct {
	c    *core.C
	k    *clientkeeper.Keeper
	root sdk.Context
	keys []attKey
	ids  map[[2]int]string // (n,q) -> client id
	cnt  struct{ evals, nontrivial int }

	sampled map[string]bool
}

func (e *env) addrs(n int) []string {
	out := make([]string, n)
	for i := range out {
		out[i] = e.keys[i].addr
	}
	return out
}

func mustMarshal(m proto.Message) []byte {
	bz, err := proto.Marshal(m)
	if err != nil {
		panic(err)
	}
	return bz
}

// createClient creates an attestations client through the 02-client keeper.
func (e *env) createClient(ctx sdk.Context, n int, q uint32) (string, error) {
	cs := attestations.NewClientState(e.addrs(n), q, initH)
	cons := &attestations.ConsensusState{Timestamp: initTs * nanos}
	var id string
	var err error
	if p := core.Catch(func() { id, err = e.k.CreateClient(ctx, exported.Attestations, mustMarshal(cs), mustMarshal(cons)) }); p != "" {
		return "", fmt.Errorf("panic: %s", p)
	}
	return id, err
}

type outcome struct {
	OK    bool
	Panic bool
	Err   string
	Ctx   sdk.Context // branched context holding the effects
}

func short(s string) string {
	if len(s) > 160 {
		return s[:160]
	}
	return s
}

func (e *env) update(ctx sdk.Context, id string, data []byte, sigs [][]byte) outcome {
	cctx, _ := ctx.CacheContext()
	var err error
	msg := &attestations.AttestationProof{AttestationData: data, Signatures: sigs}
	if p := core.Catch(func() { err = e.k.UpdateClient(cctx, id, msg) }); p != "" {
		return outcome{Panic: true, Err: short("panic: " + p), Ctx: ctx}
	}
	if err != nil {
		return outcome{Err: short(err.Error()), Ctx: ctx}
	}
	return outcome{OK: true, Ctx: cctx}
}

func (e *env) member(ctx sdk.Context, id string, h clienttypes.Height, data []byte, sigs [][]byte, path exported.Path, value []byte) outcome {
	cctx, _ := ctx.CacheContext()
	proof := mustMarshal(&attestations.AttestationProof{AttestationData: data, Signatures: sigs})
	var err error
	if p := core.Catch(func() { err = e.k.VerifyMembership(cctx, id, h, 0, 0, proof, path, value) }); p != "" {
		return outcome{Panic: true, Err: short("panic: " + p), Ctx: ctx}
	}
	if err != nil {
		return outcome{Err: short(err.Error()), Ctx: ctx}
	}
	return outcome{OK: true, Ctx: cctx}
}

func (e *env) nonMember(ctx sdk.Context, id string, h clienttypes.Height, data []byte, sigs [][]byte, path exported.Path) outcome {
	cctx, _ := ctx.CacheContext()
	proof := mustMarshal(&attestations.AttestationProof{AttestationData: data, Signatures: sigs})
	var err error
	if p := core.Catch(func() { err = e.k.VerifyNonMembership(cctx, id, h, 0, 0, proof, path) }); p != "" {
		return outcome{Panic: true, Err: short("panic: " + p), Ctx: ctx}
	}
	if err != nil {
		return outcome{Err: short(err.Error()), Ctx: ctx}
	}
	return outcome{OK: true, Ctx: cctx}
}

// tsAt returns the stored timestamp (ns) of the client at height h, 0 when absent.
func (e *env) tsAt(ctx sdk.Context, id string, h uint64) uint64 {
	var ts uint64
	var err error
	if p := core.Catch(func() { ts, err = e.k.GetClientTimestampAtHeight(ctx, id, clienttypes.NewHeight(0, h)) }); p != "" || err != nil {
		return 0
	}
	return ts
}

// judge compares an outcome with the statement predicate nOK and the strict predicate eOK.
func (e *env) judge(kind, key string, got outcome, nOK, eOK bool, replay any) {
	c := e.c
	e.cnt.evals++
	if eOK && !nOK {
		c.Broken("reference inconsistent (strict predicate holds, statement predicate does not) for %s/%s", kind, key)
		return
	}
	switch {
	case got.OK && !nOK:
		c.Violation(kind+"/unsound-accept/"+key, fmt.Sprintf("%s accepted although the statement's acceptance condition does not hold", kind), replay)
	case !got.OK && eOK:
		c.Violation(kind+"/rejects-verified/"+key, fmt.Sprintf("%s rejected (%s) although every signature is a valid 65-byte signature of a distinct configured attestor and all other conditions hold", kind, got.Err), replay)
	}
	switch {
	case nOK && !eOK && got.OK:
		c.Hist("between_statement_and_strict", kind+":accepted")
	case nOK && !eOK:
		c.Hist("between_statement_and_strict", kind+":rejected")
	}
	if e.sampled == nil {
		e.sampled = map[string]bool{}
	}
	for _, cls := range []struct {
		name string
		hit  bool
	}{{kind + ":accepted", got.OK}, {kind + ":statement-holds-but-rejected", !got.OK && nOK}, {kind + ":rejected", !got.OK && !nOK && e.cnt.evals > 2000}} {
		if cls.hit && !e.sampled[cls.name] {
			e.sampled[cls.name] = true
			c.Sample(map[string]any{"class": cls.name, "case": replay, "statement_predicate": nOK, "strict_predicate": eOK, "error": got.Err})
		}
	}
	if got.OK {
		c.Hist("outcomes", kind+":accepted")
	} else if got.Panic {
		c.Hist("outcomes", kind+":panic-recovered")
	} else {
		c.Hist("outcomes", kind+":rejected")
	}
}

// sigCase is the replayable description of one part-A case.
type sigCase struct {
	Part string   `json:"part"`
	Kind string   `json:"kind"` // update | member
	N    int      `json:"n"`
	Q    uint32   `json:"q"`
	Sigs []string `json:"sigs"`
}

type payloadCase struct {
	Part        string   `json:"part"`
	Op          string   `json:"op"` // member | nonmember
	Entries     []string `json:"entries"`
	AttHeight   uint64   `json:"att_height"`
	ProofHeight string   `json:"proof_height"`
	Key         string   `json:"key"`
	Value       string   `json:"value_hex"`
	SigMode     string   `json:"sig_mode"`
}

type historyCase struct {
	Part string   `json:"part"`
	Ops  []string `json:"ops"`
}

func run(c *core.C) {
	coord := ibctesting.NewCoordinator(c.T, 1)
	chain := coord.GetChain(ibctesting.GetChainID(1))
	app := chain.GetSimApp()
	root, _ := chain.GetContext().CacheContext()
	e := &env{c: c, k: app.IBCKeeper.ClientKeeper, root: root, ids: map[[2]int]string{}}
	for i := 0; i < nKeys; i++ {
		e.keys = append(e.keys, mkKey(i))
	}
	if !selfChecks(e) {
		return
	}
	var rep struct {
		Part string `json:"part"`
	}
	if c.Replay != "" {
		if err := c.LoadReplay(&rep); err != nil {
			c.Broken("cannot load replay: %v", err)
			return
		}
	}
	if rep.Part == "" || rep.Part == "sig" {
		partSignatures(e)
	}
	if rep.Part == "" || rep.Part == "payload" || rep.Part == "shape" || rep.Part == "interchange" {
		partPayloads(e)
	}
	if rep.Part == "" || rep.Part == "history" {
		partHistories(e)
	}
	c.Set("evaluations", e.cnt.evals)
	c.Set("distinct_nontrivial", e.cnt.nontrivial)
	c.Set("rule", "signature part: every list of length 0..L over the signature alphabet x every (attestor count n in 1..4, quorum q in 1..n+1), as client update and as membership proof; payload part: every packet list over 5 entry kinds x attested height x proof height x key x value x signature mode, for membership and non-membership; history part: every operation sequence up to depth D. All enumerated cases are pairwise distinct; non-trivial = at least one signature in the list is a valid signature of a configured attestor over the right digest (signature part), the signature list meets the quorum (payload part), every history of length >= 2")
	c.Assume("sha256, keccak256 (x/crypto), decred secp256k1 ECDSA verification and go-ethereum signing (fixture generation only) are trusted")
	c.Assume("panics inside the keeper call are recovered and the branched context discarded, as baseapp does for a transaction")
	c.Assume("the statement is an 'only if': outcomes of inputs that satisfy the statement's condition but contain additional invalid/duplicate/foreign signatures are recorded (between_statement_and_strict), not judged")
}

// selfChecks validates the fixtures and the reference primitives against each other.
func selfChecks(e *env) bool {
	c := e.c
	// reference ABI encoders agree with the module's encoders on well-formed input
	sa := attestations.StateAttestation{Height: 11, Timestamp: 1_700_000_011 * nanos}
	if bz, err := sa.ABIEncode(); err != nil || !bytes.Equal(bz, abiState(11, 1_700_000_011)) {
		c.Broken("reference state ABI encoding differs from the module's")
		return false
	}
	es := []entry{{keccak([]byte("a")), keccak([]byte("b"))}, {keccak([]byte("c")), make([]byte, 32)}}
	pa := attestations.PacketAttestation{Height: 7, Packets: []attestations.PacketCompact{{Path: es[0].Path, Commitment: es[0].Commitment}, {Path: es[1].Path, Commitment: es[1].Commitment}}}
	if bz, err := pa.ABIEncode(); err != nil || !bytes.Equal(bz, abiPacket(7, es)) {
		c.Broken("reference packet ABI encoding differs from the module's")
		return false
	}
	if !bytes.Equal(keccak([]byte("x")), ethcrypto.Keccak256([]byte("x"))) {
		c.Broken("keccak mismatch")
		return false
	}
	// the reference verifier accepts genuine signatures (both s forms) and nothing else
	d := refDigest(tagState, []byte("probe"))
	s0 := sign(e.keys[0], d)
	if !refVerify(e.keys[0].pub, d, s0) || !refVerify(e.keys[0].pub, d, highS(s0)) || refVerify(e.keys[1].pub, d, s0) || refVerify(e.keys[0].pub, refDigest(tagPkt, []byte("probe")), s0) {
		c.Broken("reference ECDSA verification self-check failed")
		return false
	}
	// creation: quorum 0 and n+1 are refused, 1..n accepted
	for n := 1; n <= 4; n++ {
		for _, q := range []uint32{0, uint32(n + 1)} {
			cctx, _ := e.root.CacheContext()
			e.cnt.evals++
			if _, err := e.createClient(cctx, n, q); err == nil {
				c.Violation(fmt.Sprintf("create/accepts-quorum/n=%d/q=%d", n, q), "client with an unsatisfiable or zero quorum was created", map[string]any{"n": n, "q": q})
			}
		}
		for q := 1; q <= n+1; q++ {
			qq := uint32(q)
			if q == n+1 {
				qq = uint32(n)
			}
			id, err := e.createClient(e.root, n, qq)
			if err != nil {
				c.Broken("cannot create attestations client n=%d q=%d: %v", n, q, err)
				return false
			}
			if q == n+1 {
				// a quorum above the attestor count cannot be created; install it directly to check nothing is accepted
				cs := attestations.NewClientState(e.addrs(n), uint32(q), initH)
				e.k.SetClientState(e.root, id, cs)
			}
			e.ids[[2]int{n, q}] = id
		}
	}
	return true
}

// ---- part A: signature lists ----------------------------------------------------------------------

func partSignatures(e *env) {
	c := e.c
	thorough := !c.Quick()
	stateData := abiState(11, 1_700_000_011)
	otherState := abiState(11, 1_700_000_012)
	key := []byte("commitments/ports/transfer/channels/channel-0/sequences/1")
	commit := sha256.Sum256([]byte("commitment"))
	commit2 := sha256.Sum256([]byte("other commitment"))
	pktData := abiPacket(initH, []entry{{keccak(key), commit[:]}})
	otherPkt := abiPacket(initH, []entry{{keccak(key), commit2[:]}})
	path := commitmenttypesv2.NewMerklePath(key)

	rich := []int{0}
	if thorough {
		rich = []int{0, 1}
	}
	updLetters := buildLetters(e.keys, stateData, tagState, otherState, rich, thorough)
	memLetters := buildLetters(e.keys, pktData, tagPkt, otherPkt, rich, thorough)
	byName := func(ls []letter) map[string]letter {
		m := map[string]letter{}
		for _, l := range ls {
			m[l.Name] = l
		}
		return m
	}
	c.Set("signature_alphabet", names(updLetters))

	evalCase := func(sc sigCase, letters map[string]letter) {
		var list []letter
		for _, nm := range sc.Sigs {
			l, ok := letters[nm]
			if !ok {
				c.Broken("unknown signature letter %q", nm)
				return
			}
			list = append(list, l)
		}
		id := e.ids[[2]int{sc.N, int(sc.Q)}]
		nOK, eOK := refSig(list, sc.N, sc.Q)
		keyStr := fmt.Sprintf("n=%d/q=%d/sigs=%s", sc.N, sc.Q, strings.Join(sc.Sigs, ","))
		var got outcome
		if sc.Kind == "update" {
			got = e.update(e.root, id, stateData, sigBytes(list))
			if got.OK {
				// accepted: the attested state must be what is stored
				if ts := e.tsAt(got.Ctx, id, 11); ts != 1_700_000_011*nanos {
					c.Violation("update/stored-other-state/"+keyStr, fmt.Sprintf("accepted update stored timestamp %d at height 11, attested %d", ts, 1_700_000_011*nanos), sc)
				}
				if lh := e.k.GetClientLatestHeight(got.Ctx, id); lh.RevisionHeight != 11 || e.k.GetClientStatus(got.Ctx, id) != exported.Active {
					c.Violation("update/post-state/"+keyStr, "accepted update did not leave the client Active at latest height 11", sc)
				}
			}
		} else {
			got = e.member(e.root, id, clienttypes.NewHeight(0, initH), pktData, sigBytes(list), path, commit[:])
		}
		e.judge(sc.Kind, keyStr, got, nOK, eOK, sc)
		anyValid := false
		for _, l := range list {
			for i := 0; i < sc.N; i++ {
				anyValid = anyValid || l.ValidFor[i]
			}
		}
		if anyValid {
			e.cnt.nontrivial++
		}
		if got.OK && e.cnt.evals%9973 == 0 {
			c.Sample(map[string]any{"case": sc, "accepted": got.OK})
		}
	}

	if c.Replay != "" {
		var sc sigCase
		if err := c.LoadReplay(&sc); err != nil {
			c.Broken("replay: %v", err)
			return
		}
		if sc.Kind == "update" {
			evalCase(sc, byName(updLetters))
		} else {
			evalCase(sc, byName(memLetters))
		}
		return
	}

	// alphabets: full alphabet up to fullLen, core alphabet (valid, foreign, zero, and the variants of A1) one longer
	fullLen := core.Pick(c, 3, 3)
	coreLen := core.Pick(c, 4, 5)
	memLen := core.Pick(c, 2, 3)
	coreSet := map[string]bool{"V1": true, "V2": true, "V3": true, "V4": true, "U": true, "Z": true, "V27_1": true, "H1": true, "W1": true, "L66_1": true, "T1": true, "I1": true}
	enumerate := func(kind string, letters []letter, maxLen int, only map[string]bool, minLen int) {
		var alpha []letter
		for _, l := range letters {
			if only == nil || only[l.Name] {
				alpha = append(alpha, l)
			}
		}
		lm := byName(letters)
		sequences(len(alpha), maxLen, func(idx []int) bool {
			if len(idx) < minLen {
				return true
			}
			nm := make([]string, len(idx))
			for i, j := range idx {
				nm[i] = alpha[j].Name
			}
			for n := 1; n <= 4; n++ {
				for q := 1; q <= n+1; q++ {
					evalCase(sigCase{Part: "sig", Kind: kind, N: n, Q: uint32(q), Sigs: nm}, lm)
				}
			}
			return !c.TimeUp()
		})
	}
	enumerate("update", updLetters, fullLen, nil, 0)
	if coreLen > fullLen {
		enumerate("update", updLetters, coreLen, coreSet, fullLen+1)
	}
	enumerate("member", memLetters, memLen, nil, 0)
	c.Set("signature_list_max_len", map[string]int{"update_full_alphabet": fullLen, "update_core_alphabet": coreLen, "membership_full_alphabet": memLen})
	c.Sample(map[string]any{"part": "sig", "example": sigCase{Part: "sig", Kind: "update", N: 3, Q: 2, Sigs: []string{"V1", "H1"}}, "statement_predicate": false, "note": "two signatures, one signer"})
}

// ---- part B: payloads -------------------------------------------------------------------------------

func partPayloads(e *env) {
	c := e.c
	const n, q = 3, 2
	// a dedicated client with heights 10 (initial) and 11 (updated here with a quorum of signatures)
	ctx, _ := e.root.CacheContext()
	id, err := e.createClient(ctx, n, q)
	if err != nil {
		c.Broken("payload client: %v", err)
		return
	}
	st11 := abiState(11, 1_700_000_011)
	d11 := refDigest(tagState, st11)
	up := e.update(ctx, id, st11, [][]byte{sign(e.keys[0], d11), sign(e.keys[1], d11)})
	e.cnt.evals++
	if !up.OK {
		c.Violation("update/rejects-verified/payload-setup", "update with a quorum of valid signatures rejected: "+up.Err, nil)
		return
	}
	ctx = up.Ctx
	stored := map[string]bool{"0-10": true, "0-11": true}

	keyA := []byte("commitments/ports/transfer/channels/channel-0/sequences/1")
	keyB := []byte("commitments/ports/transfer/channels/channel-0/sequences/2")
	pA, pB := keccak(keyA), keccak(keyB)
	cA, cB := sha256.Sum256([]byte("commitment A")), sha256.Sum256([]byte("commitment B"))
	zero := make([]byte, 32)
	kinds := []struct {
		Name string
		E    entry
	}{
		{"match", entry{pA, cA[:]}},
		{"othercommit", entry{pA, cB[:]}},
		{"zero", entry{pA, zero}},
		{"otherpath", entry{pB, cA[:]}},
		{"otherpathzero", entry{pB, zero}},
	}
	kindByName := map[string]entry{}
	for _, k := range kinds {
		kindByName[k.Name] = k.E
	}
	values := [][]byte{cA[:], cB[:], zero, cA[:31], append(append([]byte{}, cA[:]...), 0), {}}
	keysQ := map[string][]byte{"A": keyA, "B": keyB}
	proofHeights := []clienttypes.Height{clienttypes.NewHeight(0, 10), clienttypes.NewHeight(0, 11), clienttypes.NewHeight(0, 12), clienttypes.NewHeight(1, 10)}
	attHeights := []uint64{10, 11, 12}
	sigModes := []string{"quorum", "short", "statetag"}

	type signed struct {
		data []byte
		sigs map[string][][]byte
	}
	cache := map[string]*signed{}
	signedFor := func(att uint64, names []string) *signed {
		ck := fmt.Sprintf("%d|%s", att, strings.Join(names, ","))
		if s, ok := cache[ck]; ok {
			return s
		}
		var es []entry
		for _, nm := range names {
			es = append(es, kindByName[nm])
		}
		data := abiPacket(att, es)
		dp, ds := refDigest(tagPkt, data), refDigest(tagState, data)
		s := &signed{data: data, sigs: map[string][][]byte{
			"quorum":   {sign(e.keys[0], dp), sign(e.keys[2], dp)},
			"short":    {sign(e.keys[1], dp)},
			"statetag": {sign(e.keys[0], ds), sign(e.keys[2], ds)},
		}}
		if len(cache) > 4096 {
			cache = map[string]*signed{}
		}
		cache[ck] = s
		return s
	}

	evalCase := func(pc payloadCase) {
		s := signedFor(pc.AttHeight, pc.Entries)
		ph, err := clienttypes.ParseHeight(pc.ProofHeight)
		if err != nil {
			c.Broken("bad proof height %q", pc.ProofHeight)
			return
		}
		value, _ := hex.DecodeString(pc.Value)
		qkey := keysQ[pc.Key]
		hp := keccak(qkey)
		sigOK := pc.SigMode == "quorum"
		common := sigOK && stored[pc.ProofHeight] && pc.AttHeight == ph.RevisionHeight
		var want bool
		matching, allZero := 0, true
		for _, nm := range pc.Entries {
			en := kindByName[nm]
			if bytes.Equal(en.Path, hp) {
				matching++
				if !bytes.Equal(en.Commitment, zero) {
					allZero = false
				}
			}
		}
		var got outcome
		path := commitmenttypesv2.NewMerklePath(qkey)
		keyStr := fmt.Sprintf("entries=%s/att=%d/proof=%s/key=%s/value=%s/sigs=%s", strings.Join(pc.Entries, ","), pc.AttHeight, pc.ProofHeight, pc.Key, pc.Value, pc.SigMode)
		if pc.Op == "member" {
			has := false
			for _, nm := range pc.Entries {
				en := kindByName[nm]
				if len(value) == 32 && bytes.Equal(en.Path, hp) && bytes.Equal(en.Commitment, value) {
					has = true
				}
			}
			want = common && has
			got = e.member(ctx, id, ph, s.data, s.sigs[pc.SigMode], path, value)
		} else {
			want = common && matching > 0 && allZero
			got = e.nonMember(ctx, id, ph, s.data, s.sigs[pc.SigMode], path)
		}
		// here the statement predicate and the strict one coincide (signature lists are either exact quorums or insufficient)
		e.judge(pc.Op, keyStr, got, want, want, pc)
		if sigOK {
			e.cnt.nontrivial++
		}
		if want && e.cnt.evals%4001 == 0 {
			c.Sample(map[string]any{"case": pc, "accepted": got.OK})
		}
	}

	if c.Replay != "" {
		var pc payloadCase
		if err := c.LoadReplay(&pc); err != nil {
			c.Broken("replay: %v", err)
			return
		}
		if pc.Part == "payload" {
			evalCase(pc)
		}
		return
	}

	maxEntries := core.Pick(c, 3, 5)
	sequences(len(kinds), maxEntries, func(idx []int) bool {
		nm := make([]string, len(idx))
		for i, j := range idx {
			nm[i] = kinds[j].Name
		}
		for _, att := range attHeights {
			for _, ph := range proofHeights {
				for _, kq := range []string{"A", "B"} {
					for _, sm := range sigModes {
						for _, v := range values {
							evalCase(payloadCase{Part: "payload", Op: "member", Entries: nm, AttHeight: att, ProofHeight: ph.String(), Key: kq, Value: hex.EncodeToString(v), SigMode: sm})
						}
						evalCase(payloadCase{Part: "payload", Op: "nonmember", Entries: nm, AttHeight: att, ProofHeight: ph.String(), Key: kq, SigMode: sm})
					}
				}
			}
		}
		return !c.TimeUp()
	})
	c.Set("packet_list_max_len", maxEntries)

	// path shapes and undecodable data, with a quorum of signatures over exactly the submitted bytes
	good := signedFor(10, []string{"match", "zero"})
	goodZero := signedFor(10, []string{"zero"})
	h10 := clienttypes.NewHeight(0, 10)
	shapes := []struct {
		name string
		path exported.Path
	}{
		{"empty-keypath", commitmenttypesv2.MerklePath{}},
		{"two-elements", commitmenttypesv2.NewMerklePath([]byte("ibc"), keyA)},
		{"empty-key", commitmenttypesv2.NewMerklePath([]byte{})},
		{"nil", nil},
	}
	for _, sh := range shapes {
		got := e.member(ctx, id, h10, good.data, good.sigs["quorum"], sh.path, cA[:])
		e.judge("member", "shape="+sh.name, got, false, false, map[string]any{"part": "shape", "shape": sh.name})
		got = e.nonMember(ctx, id, h10, goodZero.data, goodZero.sigs["quorum"], sh.path)
		e.judge("nonmember", "shape="+sh.name, got, false, false, map[string]any{"part": "shape", "shape": sh.name})
		e.cnt.nontrivial += 2
	}
	quorumOver := func(data []byte, tag byte) [][]byte {
		d := refDigest(tag, data)
		return [][]byte{sign(e.keys[0], d), sign(e.keys[1], d)}
	}
	one := abiPacket(10, []entry{{pA, cA[:]}})
	for _, m := range []struct {
		name string
		data []byte
	}{
		{"trunc-1", one[:len(one)-1]},
		{"trunc-32", one[:len(one)-32]},
		{"count-too-big", append(append([]byte{}, one[:96]...), append(word(2), one[128:]...)...)},
		{"empty", nil},
		{"state-attestation-bytes", abiState(10, initTs)},
	} {
		got := e.member(ctx, id, h10, m.data, quorumOver(m.data, tagPkt), commitmenttypesv2.NewMerklePath(keyA), cA[:])
		e.judge("member", "data="+m.name, got, false, false, map[string]any{"part": "shape", "data": m.name})
		got = e.nonMember(ctx, id, h10, m.data, quorumOver(m.data, tagPkt), commitmenttypesv2.NewMerklePath(keyA))
		e.judge("nonmember", "data="+m.name, got, false, false, map[string]any{"part": "shape", "data": m.name})
		e.cnt.nontrivial += 2
	}
	// garbage proof bytes (not an AttestationProof)
	cctx, _ := ctx.CacheContext()
	var gerr error
	if p := core.Catch(func() {
		gerr = e.k.VerifyMembership(cctx, id, h10, 0, 0, []byte{0xff, 0xff, 0xff}, commitmenttypesv2.NewMerklePath(keyA), cA[:])
	}); p == "" && gerr == nil {
		c.Violation("member/unsound-accept/garbage-proof", "undecodable proof bytes accepted", nil)
	}
	e.cnt.evals++

	// interchange: the same bytes signed for one purpose must not serve the other
	// (a) packet attestation bytes with packet-tag signatures submitted as a client update
	got := e.update(ctx, id, one, quorumOver(one, tagPkt))
	e.judge("update", "interchange=packet-signed-bytes-as-update", got, false, false, map[string]any{"part": "interchange", "case": "a"})
	// (b) state attestation bytes with state-tag signatures submitted as a (non-)membership proof
	got = e.member(ctx, id, h10, st11, quorumOver(st11, tagState), commitmenttypesv2.NewMerklePath(keyA), cA[:])
	e.judge("member", "interchange=state-signed-bytes-as-proof", got, false, false, map[string]any{"part": "interchange", "case": "b"})
	// (c) packet attestation bytes with *state*-tag signatures as a membership proof (attestors signed them as a state attestation)
	got = e.member(ctx, id, h10, one, quorumOver(one, tagState), commitmenttypesv2.NewMerklePath(keyA), cA[:])
	e.judge("member", "interchange=state-tag-over-packet-bytes-as-proof", got, false, false, map[string]any{"part": "interchange", "case": "c"})
	got = e.nonMember(ctx, id, h10, goodZero.data, quorumOver(goodZero.data, tagState), commitmenttypesv2.NewMerklePath(keyA))
	e.judge("nonmember", "interchange=state-tag-over-packet-bytes-as-proof", got, false, false, map[string]any{"part": "interchange", "case": "c2"})
	// (d) state attestation bytes with packet-tag signatures as an update
	st12 := abiState(12, 1_700_000_012)
	got = e.update(ctx, id, st12, quorumOver(st12, tagPkt))
	e.judge("update", "interchange=packet-tag-over-state-bytes-as-update", got, false, false, map[string]any{"part": "interchange", "case": "d"})
	// positive controls
	got = e.update(ctx, id, st12, quorumOver(st12, tagState))
	e.judge("update", "interchange=control-update", got, true, true, map[string]any{"part": "interchange", "case": "control-update"})
	got = e.member(ctx, id, h10, one, quorumOver(one, tagPkt), commitmenttypesv2.NewMerklePath(keyA), cA[:])
	e.judge("member", "interchange=control-member", got, true, true, map[string]any{"part": "interchange", "case": "control-member"})
	e.cnt.nontrivial += 7
}

// ---- part C: histories ------------------------------------------------------------------------------

type refState struct {
	stored map[uint64]uint64 // height -> timestamp seconds
	frozen bool
	latest uint64
}

func (r refState) clone() refState {
	m := map[uint64]uint64{}
	for k, v := range r.stored {
		m[k] = v
	}
	return refState{stored: m, frozen: r.frozen, latest: r.latest}
}

func partHistories(e *env) {
	c := e.c
	const n, q = 3, 2
	ctx0, _ := e.root.CacheContext()
	id, err := e.createClient(ctx0, n, q)
	if err != nil {
		c.Broken("history client: %v", err)
		return
	}
	mod, err := e.k.Route(ctx0, id)
	if err != nil {
		c.Broken("route: %v", err)
		return
	}
	keyA := []byte("commitments/ports/transfer/channels/channel-0/sequences/1")
	keyB := []byte("commitments/ports/transfer/channels/channel-0/sequences/2")
	cA := sha256.Sum256([]byte("commitment A"))
	zero := make([]byte, 32)
	quorum := func(data []byte, tag byte) [][]byte {
		d := refDigest(tag, data)
		return [][]byte{sign(e.keys[2], d), sign(e.keys[0], d)}
	}
	type op struct {
		name string
		// apply runs the operation on the implementation and the reference; returns the new context and whether results agree
		h, ts uint64
		kind  string
	}
	ops := []op{
		{name: "U10same", kind: "update", h: 10, ts: initTs},
		{name: "U10diff", kind: "update", h: 10, ts: initTs + 1},
		{name: "U11a", kind: "update", h: 11, ts: 1_700_000_011},
		{name: "U11b", kind: "update", h: 11, ts: 1_700_000_012},
		{name: "U9", kind: "update", h: 9, ts: 1_700_000_009},
		{name: "Ushort", kind: "update-short", h: 12, ts: 1_700_000_013},
		{name: "M10", kind: "member", h: 10},
		{name: "M11", kind: "member", h: 11},
		{name: "N10", kind: "nonmember", h: 10},
		{name: "direct", kind: "direct"},
	}
	opByName := map[string]op{}
	for _, o := range ops {
		opByName[o.name] = o
	}
	pktCache := map[uint64][2][]byte{}
	pkt := func(h uint64) ([]byte, []byte) {
		if v, ok := pktCache[h]; ok {
			return v[0], v[1]
		}
		m := abiPacket(h, []entry{{keccak(keyA), cA[:]}, {keccak(keyB), zero}})
		pktCache[h] = [2][]byte{m, nil}
		return m, nil
	}
	sigCache := map[string][][]byte{}
	quorumC := func(data []byte, tag byte) [][]byte {
		ck := string([]byte{tag}) + string(data)
		if s, ok := sigCache[ck]; ok {
			return s
		}
		s := quorum(data, tag)
		sigCache[ck] = s
		return s
	}

	// step applies one op; returns successor context/reference and false if a violation was reported
	step := func(ctx sdk.Context, ref refState, o op, trace []string) (sdk.Context, refState) {
		hc := historyCase{Part: "history", Ops: trace}
		keyStr := "ops=" + strings.Join(trace, ",")
		e.cnt.evals++
		switch o.kind {
		case "update", "update-short":
			data := abiState(o.h, o.ts)
			sigs := quorumC(data, tagState)
			want := !ref.frozen
			if o.kind == "update-short" {
				sigs = sigs[:1]
				want = false
			}
			got := e.update(ctx, id, data, sigs)
			if got.OK != want {
				c.Violation("history/update-result/"+keyStr, fmt.Sprintf("update(h=%d,ts=%d) accepted=%v, reference %v (frozen=%v) %s", o.h, o.ts, got.OK, want, ref.frozen, got.Err), hc)
			}
			if got.OK {
				ctx = got.Ctx
			}
			if want {
				ref = ref.clone()
				if old, ok := ref.stored[o.h]; ok && old != o.ts {
					ref.frozen = true
				} else {
					ref.stored[o.h] = o.ts
					if o.h > ref.latest {
						ref.latest = o.h
					}
				}
			}
		case "member", "nonmember":
			data, _ := pkt(o.h)
			sigs := quorumC(data, tagPkt)
			_, has := ref.stored[o.h]
			want := !ref.frozen && has
			var got outcome
			if o.kind == "member" {
				got = e.member(ctx, id, clienttypes.NewHeight(0, o.h), data, sigs, commitmenttypesv2.NewMerklePath(keyA), cA[:])
			} else {
				got = e.nonMember(ctx, id, clienttypes.NewHeight(0, o.h), data, sigs, commitmenttypesv2.NewMerklePath(keyB))
			}
			if got.OK != want {
				c.Violation("history/"+o.kind+"-result/"+keyStr, fmt.Sprintf("%s at height %d accepted=%v, reference %v (frozen=%v, stored=%v) %s", o.kind, o.h, got.OK, want, ref.frozen, has, got.Err), hc)
			}
		case "direct":
			// the light client module itself (not only the keeper's status gate) must refuse everything when frozen
			data := abiState(13, 1_700_000_013)
			msg := &attestations.AttestationProof{AttestationData: data, Signatures: quorumC(data, tagState)}
			cctx, _ := ctx.CacheContext()
			var verr, merr, nerr error
			pdata, _ := pkt(10)
			proof := mustMarshal(&attestations.AttestationProof{AttestationData: pdata, Signatures: quorumC(pdata, tagPkt)})
			p := core.Catch(func() {
				verr = mod.VerifyClientMessage(cctx, id, msg)
				merr = mod.VerifyMembership(cctx, id, clienttypes.NewHeight(0, 10), 0, 0, proof, commitmenttypesv2.NewMerklePath(keyA), cA[:])
				nerr = mod.VerifyNonMembership(cctx, id, clienttypes.NewHeight(0, 10), 0, 0, proof, commitmenttypesv2.NewMerklePath(keyB))
			})
			if p != "" {
				c.Broken("module call panicked: %s", p)
			}
			for _, r := range []struct {
				what string
				err  error
			}{{"VerifyClientMessage", verr}, {"VerifyMembership", merr}, {"VerifyNonMembership", nerr}} {
				if (r.err == nil) != !ref.frozen {
					c.Violation("history/direct-"+r.what+"/"+keyStr, fmt.Sprintf("LightClientModule.%s accepted=%v with frozen=%v (%v)", r.what, r.err == nil, ref.frozen, r.err), hc)
				}
			}
		}
		// compare the observable state
		st := e.k.GetClientStatus(ctx, id)
		if (st == exported.Frozen) != ref.frozen || (st != exported.Frozen && st != exported.Active) {
			c.Violation("history/status/"+keyStr, fmt.Sprintf("status %s, reference frozen=%v", st, ref.frozen), hc)
		}
		if lh := e.k.GetClientLatestHeight(ctx, id); lh.RevisionHeight != ref.latest || lh.RevisionNumber != 0 {
			c.Violation("history/latest/"+keyStr, fmt.Sprintf("latest height %s, reference %d", lh, ref.latest), hc)
		}
		for _, h := range []uint64{9, 10, 11, 12} {
			if ts := e.tsAt(ctx, id, h); ts != ref.stored[h]*nanos {
				c.Violation(fmt.Sprintf("history/consensus/h=%d/%s", h, keyStr), fmt.Sprintf("stored timestamp %d at height %d, reference %d", ts, h, ref.stored[h]*nanos), hc)
			}
		}
		return ctx, ref
	}

	ref0 := refState{stored: map[uint64]uint64{10: initTs}, latest: 10}
	if c.Replay != "" {
		var hc historyCase
		if err := c.LoadReplay(&hc); err != nil {
			c.Broken("replay: %v", err)
			return
		}
		ctx, ref := ctx0, ref0
		for i, nm := range hc.Ops {
			ctx, ref = step(ctx, ref, opByName[nm], hc.Ops[:i+1])
		}
		return
	}
	depth := core.Pick(c, 4, 5)
	frozenSeen, histories := 0, 0
	var dfs func(ctx sdk.Context, ref refState, trace []string)
	dfs = func(ctx sdk.Context, ref refState, trace []string) {
		if len(trace) == depth || c.TimeUp() {
			return
		}
		for _, o := range ops {
			t := append(append([]string{}, trace...), o.name)
			nctx, nref := step(ctx, ref, o, t)
			histories++
			if len(t) >= 2 {
				e.cnt.nontrivial++
			}
			if nref.frozen && !ref.frozen {
				frozenSeen++
				if frozenSeen == 1 {
					c.Sample(map[string]any{"part": "history", "ops": t, "result": "client frozen by conflicting timestamp"})
				}
			}
			dfs(nctx, nref, t)
		}
	}
	dfs(ctx0, ref0, nil)
	c.Set("history_depth", depth)
	c.Set("histories", histories)
	c.Set("history_freeze_transitions", frozenSeen)
	opNames := make([]string, len(ops))
	for i, o := range ops {
		opNames[i] = o.name
	}
	sort.Strings(opNames)
	c.Set("history_ops", opNames)
}
