// Package c38 checks property C38: for each (connection, owner) at most one channel is the active
// interchain-account channel and it can be replaced only after it is CLOSED; reopening keeps the same
// ordering, metadata and account address; transactions can be sent on an owner's port only by a message that
// owner signed; only the controller can start a handshake, always with the host port as counterparty.
//
// Technique: explicit-state exploration (ksim.Explore) of the real controller / host / core handlers over an
// alphabet of registrations, direct channel-open attempts, handshake relays, MsgSendTx by either owner, packet
// relays (receive, acknowledge, timeout — a timeout closes an ORDERED channel), close attempts and re-registrations.
package c38

import (
	"encoding/binary"
	"fmt"
	"sort"
	"strings"
	"sync"

	"github.com/cosmos/gogoproto/proto"

	banktypes "github.com/cosmos/cosmos-sdk/x/bank/types"

	icatypes "github.com/cosmos/ibc-go/v11/modules/apps/27-interchain-accounts/types"
	channeltypes "github.com/cosmos/ibc-go/v11/modules/core/04-channel/types"
	host "github.com/cosmos/ibc-go/v11/modules/core/24-host"
	hostv2 "github.com/cosmos/ibc-go/v11/modules/core/24-host/v2"
	ibcmock "github.com/cosmos/ibc-go/v11/testing/mock"

	"verif/harness/core"
	"verif/harness/ksim"
	iw "verif/harness/props/icaworld"
)

func init() { core.Register("C38", "model_checking", run) }

var (
	orders = []channeltypes.Order{channeltypes.ORDERED, channeltypes.UNORDERED}
	encs   = []string{icatypes.EncodingProtobuf, icatypes.EncodingProto3JSON}
)

// ---- scenario bookkeeping ---------------------------------------------------------------------

type pkt struct {
	Owner int
	P     channeltypes.Packet
	Order channeltypes.Order
	Ack   []byte // acknowledgement bytes seen when the host received it
}

type ext struct {
	Pkts    []pkt
	Commits [2]int
	Regs    int // channel-opening operations that succeeded on the controller
	Sends   int
	// history variables
	FirstAddr map[string]string // controller port -> interchain account address first registered on the host
	InitCtx   map[int]string    // controller channel sequence -> state of the port's active channel when that channel was initialised
}

func (e *ext) Clone() ksim.Ext {
	n := &ext{Pkts: append([]pkt(nil), e.Pkts...), Commits: e.Commits, Regs: e.Regs, Sends: e.Sends,
		FirstAddr: make(map[string]string, len(e.FirstAddr)), InitCtx: make(map[int]string, len(e.InitCtx))}
	for k, v := range e.FirstAddr {
		n.FirstAddr[k] = v
	}
	for k, v := range e.InitCtx {
		n.InitCtx[k] = v
	}
	return n
}

func (e *ext) KeyBytes() []byte {
	var out []byte
	for _, p := range e.Pkts {
		out = append(out, byte(p.Owner))
		out = append(out, p.P.SourceChannel...)
		out = binary.BigEndian.AppendUint64(out, p.P.Sequence)
		out = binary.BigEndian.AppendUint64(out, p.P.TimeoutTimestamp)
		out = append(out, p.Ack...)
		out = append(out, 0)
	}
	out = append(out, byte(e.Commits[0]), byte(e.Commits[1]), byte(e.Regs), byte(e.Sends))
	var ks []string
	for k, v := range e.FirstAddr {
		ks = append(ks, k+"="+v)
	}
	for k, v := range e.InitCtx {
		ks = append(ks, fmt.Sprintf("%d:%s", k, v))
	}
	sort.Strings(ks)
	for _, k := range ks {
		out = append(out, k...)
		out = append(out, 0)
	}
	return out
}

func ex(w *ksim.World) *ext { return w.Ext.(*ext) }

// ---- scenario ---------------------------------------------------------------------------------

// Root shapes.
const (
	rootConn   = "connection"     // clients + connection only
	rootOpen   = "open"           // owner 0: ORDERED/proto3 channel open; owner 1: UNORDERED/proto3json channel open
	rootClosed = "closed-ordered" // owner 0's ORDERED channel was opened and then closed on the controller by a packet timeout (host end still OPEN)
)

// Sc is the configurable ICA channel scenario.
type Sc struct {
	ksim.Base
	Root       string
	Owners     []int // owners that register / send
	Orders     []int // indices into orders
	Encs       []int // indices into encs
	MaxRegs    int
	MaxSends   int
	Timeouts   []int // 0: one hour, 1: the host's next block
	Macro      bool  // relays = (commit source + update client + message), dropped as a whole when the message fails
	MaxCommits int   // micro mode: sync(chain) steps per chain
	DirectInit bool  // MsgChannelOpenInit on a controller port signed by an arbitrary account
	Attacks    bool  // host-initiated / wrong-counterparty handshakes and close attempts
	DupTry     bool  // a controller channel may be relayed to the host more than once

	mu       sync.Mutex
	link     *ksim.Link
	mockChan string // attacks: INIT channel on the host's mock port naming owner 0's controller port as counterparty
}

func (s *Sc) Chains() int { return 2 }

func (s *Sc) Init(wk *ksim.Worker) *ksim.World {
	w := wk.Root()
	iw.FixHeaders(w)
	e := &ext{FirstAddr: map[string]string{}, InitCtx: map[int]string{}}
	w.Ext = e
	// no identifier is the same on both ends: A has 07-tendermint-1 / connection-1 / channels from channel-2, B starts at 0
	l := iw.SkewedLink(w, iw.A, iw.B)
	mockChan := ""
	if s.Attacks {
		// a handshake started on the host chain that names a controller port as counterparty
		r := w.Tx(iw.B, channeltypes.NewMsgChannelOpenInit(ibcmock.PortID, ibcmock.Version, channeltypes.ORDERED, []string{l.ConnB}, iw.Port(iw.Owner(0)), ksim.Signer))
		ksim.MustOK("mock chan init on host", r)
		var ir channeltypes.MsgChannelOpenInitResponse
		if err := proto.Unmarshal(r.Resp, &ir); err != nil {
			panic(err)
		}
		mockChan = ir.ChannelId
	}
	switch s.Root {
	case rootOpen, rootClosed:
		ica := iw.Open(w, l, iw.Owner(0), encs[0], orders[0])
		if s.Root == rootOpen {
			iw.Open(w, l, iw.Owner(1), encs[1], orders[1])
		} else {
			// send one packet that times out at the host's next block and relay the timeout
			w.Sync(iw.B, l.ClientB, iw.A)
			w.Sync(iw.A, l.ClientA, iw.B)
			data := trivialData(w, ica.Address, encs[0])
			p, r := iw.SendTx(w, l, ica.Owner, shortTimeout(w), data, ica.ChanA, ica.ChanB)
			ksim.MustOK("send tx", r)
			w.Sync(iw.A, l.ClientA, iw.B)
			ksim.MustOK("timeout", w.TimeoutV1(iw.A, iw.B, p, channeltypes.ORDERED, w.ClientLatest(iw.A, l.ClientA)))
		}
	}
	w.Sync(iw.B, l.ClientB, iw.A)
	w.Sync(iw.A, l.ClientA, iw.B)
	s.mu.Lock()
	s.link, s.mockChan = l, mockChan
	s.mu.Unlock()
	// history variables start from the root
	for _, a := range w.W.Chains[iw.B].App.ICAHostKeeper.GetAllInterchainAccounts(w.CS[iw.B].Ctx) {
		e.FirstAddr[a.PortId] = a.AccountAddress
	}
	for _, c := range iw.Channels(w, iw.A, iw.IsControllerPort) {
		e.InitCtx[c.N] = "root"
	}
	w.Obs = nil
	return w
}

// shortTimeout is the relative timeout that expires at the host's next block.
func shortTimeout(w *ksim.World) uint64 {
	abs := w.CS[iw.B].TimeNs() + int64(ksim.BlockStep)
	if abs <= w.CS[iw.A].TimeNs() {
		abs = w.CS[iw.A].TimeNs() + 1
	}
	return uint64(abs - w.CS[iw.A].TimeNs())
}

func trivialData(w *ksim.World, from, enc string) icatypes.InterchainAccountPacketData {
	if from == "" {
		from = iw.Addr("nobody").String()
	}
	d, err := iw.PacketData(w, []proto.Message{&banktypes.MsgSend{FromAddress: from, ToAddress: iw.Addr("recipient-1").String(), Amount: iw.Coins(1)}}, enc, "")
	if err != nil {
		panic(err)
	}
	return d
}

func (s *Sc) timeouts() []int {
	if len(s.Timeouts) == 0 {
		return []int{0}
	}
	return s.Timeouts
}

func stateOf(w *ksim.World, chain int, port, id string) (channeltypes.Channel, bool) {
	return w.W.Chains[chain].App.IBCKeeper.ChannelKeeper.GetChannel(w.CS[chain].Ctx, port, id)
}

func (s *Sc) Ops(w *ksim.World) []ksim.Op {
	e := ex(w)
	var ops []ksim.Op
	ctrl := iw.Channels(w, iw.A, iw.IsControllerPort)
	hostc := iw.Channels(w, iw.B, iw.IsHostPort)
	// handshake relays first (simplest histories complete a handshake)
	for _, a := range ctrl {
		if a.State != channeltypes.INIT {
			continue
		}
		if _, relayed := iw.HostChanFor(w, a.Port, a.ID); relayed && !s.DupTry {
			continue
		}
		ops = append(ops, ksim.Op{K: "try", A: []int{a.N}})
	}
	for _, b := range hostc {
		if b.State != channeltypes.TRYOPEN {
			continue
		}
		a, ok := stateOf(w, iw.A, b.Counterparty.PortId, b.Counterparty.ChannelId)
		if ok && a.State == channeltypes.INIT {
			ops = append(ops, ksim.Op{K: "ack", A: []int{b.N}})
		}
		if ok && a.State == channeltypes.OPEN {
			ops = append(ops, ksim.Op{K: "confirm", A: []int{b.N}})
		}
	}
	for _, b := range hostc {
		if b.State != channeltypes.OPEN {
			continue
		}
		if a, ok := stateOf(w, iw.A, b.Counterparty.PortId, b.Counterparty.ChannelId); ok && a.State == channeltypes.CLOSED {
			ops = append(ops, ksim.Op{K: "closeconfirm", A: []int{b.N}})
		}
	}
	if e.Regs < s.MaxRegs {
		for _, o := range s.Owners {
			for _, oi := range s.Orders {
				for _, ei := range s.Encs {
					ops = append(ops, ksim.Op{K: "reg", A: []int{o, oi, ei}})
					if s.DirectInit {
						ops = append(ops, ksim.Op{K: "init", A: []int{o, oi, ei}})
					}
				}
			}
		}
	}
	if e.Sends < s.MaxSends {
		for _, o := range s.Owners {
			for _, t := range s.timeouts() {
				ops = append(ops, ksim.Op{K: "send", A: []int{o, t}})
			}
		}
	}
	for i := range e.Pkts {
		ops = append(ops, ksim.Op{K: "recv", A: []int{i}})
		if e.Pkts[i].Ack != nil {
			ops = append(ops, ksim.Op{K: "pack", A: []int{i}})
		}
		ops = append(ops, ksim.Op{K: "timeout", A: []int{i}})
	}
	if !s.Macro {
		for ch := 0; ch < 2; ch++ {
			if e.Commits[ch] < s.MaxCommits {
				ops = append(ops, ksim.Op{K: "sync", A: []int{ch}})
			}
		}
	}
	if s.Attacks {
		ops = append(ops, ksim.Op{K: "init-wrong-counterparty", A: []int{s.Owners[0]}}, ksim.Op{K: "init-on-host", A: []int{s.Owners[0]}}, ksim.Op{K: "try-on-controller"})
		for _, a := range ctrl {
			if a.State != channeltypes.CLOSED {
				ops = append(ops, ksim.Op{K: "close-init-controller", A: []int{a.N}})
			}
		}
		for _, b := range hostc {
			if b.State != channeltypes.CLOSED {
				ops = append(ops, ksim.Op{K: "close-init-host", A: []int{b.N}})
			}
		}
	}
	return ops
}

// syncTo commits chain src and updates dst's client of it (committing dst while its clock lags too far).
func (s *Sc) syncTo(w *ksim.World, dst int) ksim.Result {
	src := 1 - dst
	w.Commit(src, ksim.BlockStep)
	for w.CS[src].TimeNs() >= w.CS[dst].TimeNs()+int64(ksim.MaxClockDrift) {
		w.Commit(dst, ksim.BlockStep)
	}
	return w.UpdateLatest(dst, s.clientOn(dst), src)
}

func (s *Sc) clientOn(chain int) string {
	if chain == iw.A {
		return s.link.ClientA
	}
	return s.link.ClientB
}

// relay runs msg on chain dst; in macro mode it is preceded by a sync of the other chain and the whole step is dropped when msg fails.
func (s *Sc) relay(w *ksim.World, dst int, msg func(w *ksim.World) ksim.Result) ksim.Result {
	if !s.Macro {
		return msg(w)
	}
	f := w.Fork()
	if r := s.syncTo(f, dst); r.Class != ksim.OK {
		return r
	}
	r := msg(f)
	if r.Class == ksim.OK {
		*w = *f
	}
	return r
}

var notEnabled = ksim.Result{Class: ksim.ERR, Code: "harness/not-enabled"}

func (s *Sc) Apply(w *ksim.World, op ksim.Op) ksim.Result {
	l := s.link
	switch op.K {
	case "reg", "init":
		owner := iw.Owner(op.A[0])
		port := iw.Port(owner)
		order, enc := orders[op.A[1]], encs[op.A[2]]
		ctxNow := activeCtx(w, l.ConnA, port)
		var r ksim.Result
		var id string
		if op.K == "reg" {
			id, r = iw.Register(w, l, owner, iw.Version(l, enc), order)
		} else {
			r = w.Tx(iw.A, channeltypes.NewMsgChannelOpenInit(port, iw.Version(l, enc), order, []string{l.ConnA}, iw.HostPort, ksim.Signer))
			if r.Class == ksim.OK {
				var ir channeltypes.MsgChannelOpenInitResponse
				if err := proto.Unmarshal(r.Resp, &ir); err != nil {
					panic(err)
				}
				id = ir.ChannelId
			}
		}
		if r.Class == ksim.OK {
			e := ex(w)
			e.Regs++
			n, _ := channeltypes.ParseChannelSequence(id)
			e.InitCtx[int(n)] = ctxNow
		}
		return r
	case "init-wrong-counterparty":
		return w.Tx(iw.A, channeltypes.NewMsgChannelOpenInit(iw.Port(iw.Owner(op.A[0])), iw.Version(l, encs[0]), channeltypes.ORDERED, []string{l.ConnA}, "transfer", ksim.Signer))
	case "init-on-host":
		return w.Tx(iw.B, channeltypes.NewMsgChannelOpenInit(iw.HostPort, iw.Version(l, encs[0]), channeltypes.ORDERED, []string{l.ConnB}, iw.Port(iw.Owner(op.A[0])), ksim.Signer))
	case "try-on-controller":
		// relay the host chain's mock INIT channel as ChanOpenTry to the controller port it names
		return s.relay(w, iw.A, func(w *ksim.World) ksim.Result {
			ph := w.ClientLatest(iw.A, l.ClientA)
			proof, ok := w.ProofAt(iw.B, int64(ph.RevisionHeight), "ibc", host.ChannelKey(ibcmock.PortID, s.mockChan))
			if !ok {
				return notEnabled
			}
			return w.Tx(iw.A, channeltypes.NewMsgChannelOpenTry(iw.Port(iw.Owner(0)), iw.Version(l, encs[0]), channeltypes.ORDERED, []string{l.ConnA}, ibcmock.PortID, s.mockChan, ibcmock.Version, proof, ph, ksim.Signer))
		})
	case "try":
		return s.relay(w, iw.B, func(w *ksim.World) ksim.Result {
			a, ok := iw.ChanByN(w, iw.A, op.A[0])
			if !ok || !iw.IsControllerPort(a.Port) {
				return notEnabled
			}
			_, r := iw.Try(w, l, a)
			if r.Class == ksim.OK {
				s.noteAddrs(w)
			}
			return r
		})
	case "ack":
		return s.relay(w, iw.A, func(w *ksim.World) ksim.Result {
			b, ok := iw.ChanByN(w, iw.B, op.A[0])
			if !ok || !iw.IsHostPort(b.Port) {
				return notEnabled
			}
			return iw.Ack(w, l, b)
		})
	case "confirm", "closeconfirm":
		return s.relay(w, iw.B, func(w *ksim.World) ksim.Result {
			b, ok := iw.ChanByN(w, iw.B, op.A[0])
			if !ok || !iw.IsHostPort(b.Port) {
				return notEnabled
			}
			if op.K == "confirm" {
				return iw.Confirm(w, l, b)
			}
			return iw.CloseConfirm(w, l, b)
		})
	case "send":
		owner := iw.Owner(op.A[0])
		port := iw.Port(owner)
		k := w.W.Chains[iw.A].App.ICAControllerKeeper
		chanA, _ := k.GetActiveChannelID(w.CS[iw.A].Ctx, l.ConnA, port)
		ch, _ := stateOf(w, iw.A, port, chanA)
		addr, _ := k.GetInterchainAccountAddress(w.CS[iw.A].Ctx, l.ConnA, port)
		enc := encs[0]
		if md, err := icatypes.MetadataFromVersion(ch.Version); err == nil && md.Encoding != "" {
			enc = md.Encoding
		}
		rel := uint64(3600 * 1e9)
		if op.A[1] == 1 {
			rel = shortTimeout(w)
		}
		p, r := iw.SendTx(w, l, owner, rel, trivialData(w, addr, enc), chanA, ch.Counterparty.ChannelId)
		if r.Class == ksim.OK {
			e := ex(w)
			e.Sends++
			e.Pkts = append(e.Pkts, pkt{Owner: op.A[0], P: p, Order: ch.Ordering})
		}
		return r
	case "recv":
		i := op.A[0]
		return s.relay(w, iw.B, func(w *ksim.World) ksim.Result {
			p := ex(w).Pkts[i]
			r := w.RecvV1(iw.B, iw.A, p.P, w.ClientLatest(iw.B, l.ClientB))
			if r.Class == ksim.OK {
				ex(w).Pkts[i].Ack = iw.AckFromEvents(r)
			}
			return r
		})
	case "pack":
		i := op.A[0]
		return s.relay(w, iw.A, func(w *ksim.World) ksim.Result {
			p := ex(w).Pkts[i]
			return w.AckV1(iw.A, iw.B, p.P, p.Ack, w.ClientLatest(iw.A, l.ClientA))
		})
	case "timeout":
		i := op.A[0]
		return s.relay(w, iw.A, func(w *ksim.World) ksim.Result {
			p := ex(w).Pkts[i]
			return w.TimeoutV1(iw.A, iw.B, p.P, p.Order, w.ClientLatest(iw.A, l.ClientA))
		})
	case "sync":
		ch := op.A[0]
		w.Commit(ch, ksim.BlockStep)
		ex(w).Commits[ch]++
		return w.UpdateLatest(1-ch, s.clientOn(1-ch), ch)
	case "close-init-controller":
		a, ok := iw.ChanByN(w, iw.A, op.A[0])
		if !ok {
			return notEnabled
		}
		return w.Tx(iw.A, channeltypes.NewMsgChannelCloseInit(a.Port, a.ID, ksim.Signer))
	case "close-init-host":
		b, ok := iw.ChanByN(w, iw.B, op.A[0])
		if !ok {
			return notEnabled
		}
		return w.Tx(iw.B, channeltypes.NewMsgChannelCloseInit(b.Port, b.ID, ksim.Signer))
	}
	panic("unknown op " + op.K)
}

// noteAddrs maintains the history variable "first interchain-account address registered per controller port".
func (s *Sc) noteAddrs(w *ksim.World) {
	e := ex(w)
	for _, a := range w.W.Chains[iw.B].App.ICAHostKeeper.GetAllInterchainAccounts(w.CS[iw.B].Ctx) {
		if _, ok := e.FirstAddr[a.PortId]; !ok {
			e.FirstAddr[a.PortId] = a.AccountAddress
		}
	}
}

// activeCtx describes the active channel of (conn, port) on the controller right now.
func activeCtx(w *ksim.World, conn, port string) string {
	id, ok := w.W.Chains[iw.A].App.ICAControllerKeeper.GetActiveChannelID(w.CS[iw.A].Ctx, conn, port)
	if !ok {
		return "no-active-channel"
	}
	ch, _ := stateOf(w, iw.A, port, id)
	return "active-channel-" + strings.TrimPrefix(ch.State.String(), "STATE_")
}

// ---- oracles ----------------------------------------------------------------------------------

type mapping map[string]string // connection|port -> value

func ctrlActive(w *ksim.World) mapping {
	m := mapping{}
	for _, a := range w.W.Chains[iw.A].App.ICAControllerKeeper.GetAllActiveChannels(w.CS[iw.A].Ctx) {
		m[a.ConnectionId+"|"+a.PortId] = a.ChannelId
	}
	return m
}

func ctrlAddrs(w *ksim.World) mapping {
	m := mapping{}
	for _, a := range w.W.Chains[iw.A].App.ICAControllerKeeper.GetAllInterchainAccounts(w.CS[iw.A].Ctx) {
		m[a.ConnectionId+"|"+a.PortId] = a.AccountAddress
	}
	return m
}

func hostAddrs(w *ksim.World) mapping {
	m := mapping{}
	for _, a := range w.W.Chains[iw.B].App.ICAHostKeeper.GetAllInterchainAccounts(w.CS[iw.B].Ctx) {
		m[a.ConnectionId+"|"+a.PortId] = a.AccountAddress
	}
	return m
}

func sortedKeys(m mapping) []string {
	var ks []string
	for k := range m {
		ks = append(ks, k)
	}
	sort.Strings(ks)
	return ks
}

func short(st fmt.Stringer) string {
	s := st.String()
	s = strings.TrimPrefix(s, "STATE_")
	return strings.TrimPrefix(s, "ORDER_")
}

func (s *Sc) Step(pre *ksim.World, op ksim.Op, r ksim.Result, post *ksim.World) *ksim.Fail {
	// (1) the active channel of a (connection, port) is replaced only after it is CLOSED, and the replacement keeps
	//     ordering and metadata (including the account address)
	pa, qa := ctrlActive(pre), ctrlActive(post)
	for _, k := range sortedKeys(pa) {
		old, now := pa[k], qa[k]
		if old == now {
			continue
		}
		port := k[strings.Index(k, "|")+1:]
		oldCh, _ := stateOf(pre, iw.A, port, old)
		if oldCh.State != channeltypes.CLOSED {
			return &ksim.Fail{Key: "active-channel-replaced-while-" + short(oldCh.State), Text: fmt.Sprintf("%s changed the active channel of %s from %s (%s) to %q", op, k, old, short(oldCh.State), now)}
		}
		if now == "" {
			continue
		}
		newCh, _ := stateOf(post, iw.A, port, now)
		n, _ := channeltypes.ParseChannelSequence(now)
		when := ex(post).InitCtx[int(n)]
		if newCh.Ordering != oldCh.Ordering {
			return &ksim.Fail{Key: fmt.Sprintf("reopen-changed-ordering/%s->%s/new-channel-initialised-with-%s", short(oldCh.Ordering), short(newCh.Ordering), when),
				Text: fmt.Sprintf("%s replaced the CLOSED active channel %s (%s) of %s by %s (%s); the new channel was initialised while the port had %s", op, old, short(oldCh.Ordering), k, now, short(newCh.Ordering), when)}
		}
		om, err1 := icatypes.MetadataFromVersion(oldCh.Version)
		nm, err2 := icatypes.MetadataFromVersion(newCh.Version)
		if err1 != nil || err2 != nil {
			return &ksim.Fail{Key: "active-channel-version-unparsable", Text: fmt.Sprintf("%s: versions %q / %q", op, oldCh.Version, newCh.Version)}
		}
		if om != nm {
			field := "other"
			switch {
			case om.Address != nm.Address:
				field = "address"
			case om.Encoding != nm.Encoding:
				field = "encoding"
			case om.TxType != nm.TxType:
				field = "tx_type"
			}
			return &ksim.Fail{Key: fmt.Sprintf("reopen-changed-metadata/%s/new-channel-initialised-with-%s", field, when),
				Text: fmt.Sprintf("%s replaced the CLOSED active channel %s of %s (metadata %+v) by %s (metadata %+v); the new channel was initialised while the port had %s", op, old, k, om, now, nm, when)}
		}
	}
	// (2) the interchain-account address of a (connection, port) never changes, on either chain
	for _, side := range []struct {
		name      string
		pre, post mapping
	}{{"host", hostAddrs(pre), hostAddrs(post)}, {"controller", ctrlAddrs(pre), ctrlAddrs(post)}} {
		for _, k := range sortedKeys(side.pre) {
			if side.post[k] != side.pre[k] {
				return &ksim.Fail{Key: "account-address-changed/" + side.name, Text: fmt.Sprintf("%s changed the interchain account of %s on the %s from %s to %q", op, k, side.name, side.pre[k], side.post[k])}
			}
		}
	}
	// (3) MsgSendTx signed by X sends on X's port only, through X's OPEN active channel
	if op.K == "send" && r.Class == ksim.OK {
		owner := iw.Owner(op.A[0])
		port := iw.Port(owner)
		act, ok := pa[s.link.ConnA+"|"+port]
		ch, _ := stateOf(pre, iw.A, port, act)
		if !ok || ch.State != channeltypes.OPEN {
			return &ksim.Fail{Key: "send-without-open-active-channel", Text: fmt.Sprintf("%s succeeded although %s has no OPEN active channel (mapping %q, state %s)", op, port, act, short(ch.State))}
		}
		d := ksim.DiffStores(pre.DumpStores(iw.A, []string{"ibc"}), post.DumpStores(iw.A, []string{"ibc"}))
		seqKey := "ibc/" + string(hostv2.NextSequenceSendKey(act))
		commitPrefix := "ibc/" + string(host.PacketCommitmentPrefixKey(port, act)) + "/"
		for _, key := range d {
			if key != seqKey && !strings.HasPrefix(key, commitPrefix) {
				return &ksim.Fail{Key: "send-on-foreign-port", Text: fmt.Sprintf("%s signed by %s changed %q, which does not belong to the signer's port %s / active channel %s", op, owner, key, port, act)}
			}
		}
		if len(d) == 0 {
			return &ksim.Fail{Key: "send-without-commitment", Text: fmt.Sprintf("%s succeeded without committing a packet", op)}
		}
	}
	// (4) handshakes not started by the controller, or not naming the host port, fail
	switch op.K {
	case "init-wrong-counterparty", "init-on-host", "try-on-controller":
		if r.Class == ksim.OK {
			return &ksim.Fail{Key: "foreign-handshake-accepted/" + op.K, Text: fmt.Sprintf("%s succeeded", op)}
		}
	}
	return nil
}

func (s *Sc) Invariant(w *ksim.World) *ksim.Fail {
	act := ctrlActive(w)
	open := map[string]string{}
	for _, c := range iw.Channels(w, iw.A, iw.IsControllerPort) {
		// only the controller starts handshakes, always towards the host port
		if c.Counterparty.PortId != iw.HostPort {
			return &ksim.Fail{Key: "controller-channel-to-non-host-port", Text: fmt.Sprintf("controller channel %s/%s names counterparty port %s", c.Port, c.ID, c.Counterparty.PortId)}
		}
		if c.State == channeltypes.TRYOPEN {
			return &ksim.Fail{Key: "controller-channel-in-TRYOPEN", Text: fmt.Sprintf("controller channel %s/%s is in TRYOPEN: the handshake was started by the counterparty", c.Port, c.ID)}
		}
		if c.State == channeltypes.OPEN {
			k := c.ConnectionHops[0] + "|" + c.Port
			if prev, dup := open[k]; dup {
				return &ksim.Fail{Key: "two-open-channels", Text: fmt.Sprintf("%s has two OPEN channels %s and %s", k, prev, c.ID)}
			}
			open[k] = c.ID
			if act[k] != c.ID {
				return &ksim.Fail{Key: "open-channel-not-active", Text: fmt.Sprintf("%s: channel %s is OPEN but the active channel is %q", k, c.ID, act[k])}
			}
		}
	}
	for _, k := range sortedKeys(act) {
		port := k[strings.Index(k, "|")+1:]
		if _, ok := stateOf(w, iw.A, port, act[k]); !ok {
			return &ksim.Fail{Key: "active-channel-missing", Text: fmt.Sprintf("active channel %s of %s does not exist", act[k], k)}
		}
	}
	for _, c := range iw.Channels(w, iw.B, iw.IsHostPort) {
		if c.State == channeltypes.INIT {
			return &ksim.Fail{Key: "host-initiated-channel", Text: fmt.Sprintf("host channel %s is in INIT: the handshake was started by the host", c.ID)}
		}
	}
	// history: the account registered first for a port is still the one registered now
	e := ex(w)
	for _, k := range sortedKeys(hostAddrs(w)) {
		port := k[strings.Index(k, "|")+1:]
		if first, ok := e.FirstAddr[port]; ok && first != hostAddrs(w)[k] {
			return &ksim.Fail{Key: "account-address-changed/history", Text: fmt.Sprintf("the interchain account of %s was %s when first registered and is %s now", k, first, hostAddrs(w)[k])}
		}
	}
	return nil
}

// ---- driver -----------------------------------------------------------------------------------

func run(c *core.C) {
	d := core.Pick(c, 0, 2)
	regs := core.Pick(c, 2, 3) // channel-opening operations per history
	parts := []ksim.Part{
		{Name: "handshake-race/orderings", Share: 0.25, Cfg: ksim.Config{MaxDepth: 11 + d},
			Sc: &Sc{Root: rootConn, Owners: []int{0}, Orders: []int{0, 1}, Encs: []int{0}, MaxRegs: regs, MaxSends: 1, Timeouts: []int{1}, Macro: true, Attacks: true}},
		{Name: "handshake-race/encodings", Share: 0.25, Cfg: ksim.Config{MaxDepth: 10 + d},
			Sc: &Sc{Root: rootConn, Owners: []int{0}, Orders: []int{0}, Encs: []int{0, 1}, MaxRegs: regs, MaxSends: 1, Timeouts: []int{1}, Macro: true}},
		{Name: "handshake/two-owners+direct-init", Share: 0.3, Cfg: ksim.Config{MaxDepth: 8 + d},
			Sc: &Sc{Root: rootConn, Owners: []int{0, 1}, Orders: []int{0}, Encs: []int{0}, MaxRegs: 2, MaxSends: 2, Timeouts: []int{0}, Macro: true, DirectInit: true}},
		{Name: "reopen-after-timeout", Share: 0.4, Cfg: ksim.Config{MaxDepth: 9 + d},
			Sc: &Sc{Root: rootClosed, Owners: []int{0}, Orders: []int{0, 1}, Encs: []int{0, 1}, MaxRegs: regs, MaxSends: 1, Timeouts: []int{1}, Macro: true, DirectInit: true, Attacks: true}},
		{Name: "open-channels/packets", Share: 0.6, Cfg: ksim.Config{MaxDepth: 8 + d},
			Sc: &Sc{Root: rootOpen, Owners: []int{0, 1}, Orders: []int{0, 1}, Encs: []int{0}, MaxRegs: 1, MaxSends: 2, Timeouts: []int{0, 1}, Macro: true, Attacks: true}},
		{Name: "micro/handshake+timeout", Cfg: ksim.Config{MaxDepth: 8 + d},
			Sc: &Sc{Root: rootConn, Owners: []int{0}, Orders: []int{0}, Encs: []int{0}, MaxRegs: regs, MaxSends: 1, Timeouts: []int{1}, MaxCommits: 3, DupTry: true}},
	}
	ksim.RunParts(c, parts, [][]ksim.Op{
		{{K: "reg", A: []int{0, 0, 0}}, {K: "try", A: []int{0}}, {K: "ack", A: []int{0}}, {K: "confirm", A: []int{0}}, {K: "send", A: []int{0, 1}}, {K: "timeout", A: []int{0}}, {K: "closeconfirm", A: []int{0}}, {K: "reg", A: []int{0, 0, 0}}},
		{{K: "reg", A: []int{0, 0, 0}}, {K: "reg", A: []int{0, 1, 0}}, {K: "try", A: []int{0}}, {K: "try", A: []int{1}}, {K: "ack", A: []int{0}}, {K: "ack", A: []int{1}}},
	})
	c.Set("alphabet", "reg(owner,ordering,encoding)=MsgRegisterInterchainAccount | init=MsgChannelOpenInit on the owner's controller port by an arbitrary signer | try/ack/confirm/closeconfirm = handshake relays with fresh proofs | send(owner,timeout)=MsgSendTx signed by that owner | recv/pack/timeout = packet relays (a timeout closes an ORDERED channel) | init-wrong-counterparty, init-on-host, try-on-controller, close-init-controller, close-init-host = attempts that ICS-27 must reject | sync(chain) in the micro part; in macro parts a relay = commit source + client update + message, dropped as a whole when the message fails")
	c.Assume("counterparty consensus, storage commit and validator signing are played by the harness (real IAVL proofs, real signed headers verified by the unmodified 07-tendermint client); one message per transaction, no ante handlers: the signer of MsgSendTx / MsgRegisterInterchainAccount is its Owner field (the proto signer annotation)")
	c.Assume("one connection between the two chains; owners are two fixed controller-chain addresses")
}
