package c38

import (
	"testing"

	"verif/harness/core"
)

func TestRun(t *testing.T) { core.RunFromEnv(t) }
