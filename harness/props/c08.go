package props

import (
	"encoding/binary"
	"fmt"
	"sort"
	"time"

	sdk "github.com/cosmos/cosmos-sdk/types"

	clienttypes "github.com/cosmos/ibc-go/v11/modules/core/02-client/types"
	channeltypes "github.com/cosmos/ibc-go/v11/modules/core/04-channel/types"
	channeltypesv2 "github.com/cosmos/ibc-go/v11/modules/core/04-channel/v2/types"
	host "github.com/cosmos/ibc-go/v11/modules/core/24-host"
	hostv2 "github.com/cosmos/ibc-go/v11/modules/core/24-host/v2"
	"github.com/cosmos/ibc-go/v11/modules/core/exported"
	ibctm "github.com/cosmos/ibc-go/v11/modules/light-clients/07-tendermint"
	ibcmock "github.com/cosmos/ibc-go/v11/testing/mock"
	mockv2 "github.com/cosmos/ibc-go/v11/testing/mock/v2"

	"verif/harness/core"
	"verif/harness/ksim"
)

// C08: sends allocate consecutive sequences (shared between v1 and v2 on an aliased channel), write exactly
// one commitment, and are rejected at the exact send-time guard boundaries.
func init() { core.Register("C08", "model_checking", runC08) }

type sgExt struct {
	Sent    map[string]uint64 // reference counter: successful sends per identifier (channel id / client id)
	Moves   int               // state-moving ops performed
	Commits [2]int
}

func (e *sgExt) Clone() ksim.Ext {
	n := &sgExt{Sent: map[string]uint64{}, Moves: e.Moves, Commits: e.Commits}
	for k, v := range e.Sent {
		n.Sent[k] = v
	}
	return n
}

func (e *sgExt) KeyBytes() []byte {
	out := []byte{byte(e.Moves), byte(e.Commits[0]), byte(e.Commits[1])}
	var ids []string
	for k := range e.Sent {
		ids = append(ids, k)
	}
	sort.Strings(ids)
	for _, k := range ids {
		out = append(out, k...)
		out = binary.BigEndian.AppendUint64(out, e.Sent[k])
	}
	return out
}

// SG is the send-guard scenario (chain A sends; chain B only produces blocks).
type SG struct {
	ksim.Base
	MaxSend    int
	MaxCommits int
	V1, V2     bool
	Movers     []string // subset of close, freeze, expire
	WholeSecs  bool     // chain A's block times are whole seconds (timeout == block time becomes reachable)
	pl         PL       // used for set-up only
}

func (s *SG) Chains() int { return 2 }

func (s *SG) Init(wk *ksim.Worker) *ksim.World {
	w := s.pl.Init(wk)
	w.Ext = &sgExt{Sent: map[string]uint64{}}
	// give chain A's clock a sub-second part so that second / nanosecond comparisons differ
	w.Commit(0, s.stepA())
	return w
}

func (s *SG) stepA() time.Duration {
	if s.WholeSecs {
		return 5 * time.Second
	}
	return 5300 * time.Millisecond
}

func (s *SG) e(w *ksim.World) *sgExt { return w.Ext.(*sgExt) }

func (s *SG) Ops(w *ksim.World) []ksim.Op {
	e := s.e(w)
	var ops []ksim.Op
	total := uint64(0)
	for _, n := range e.Sent {
		total += n
	}
	if total < uint64(s.MaxSend) {
		if s.V1 {
			for _, th := range []int{0, 1, 2} {
				for _, tt := range []int{0, 1, 2, 3} {
					if th == 0 && tt == 0 {
						continue
					}
					ops = append(ops, ksim.Op{K: "sendv1", A: []int{th, tt}})
				}
			}
		}
		if s.V2 {
			for _, route := range []int{rV2A, rV2C} {
				for tc := 0; tc <= 6; tc++ {
					ops = append(ops, ksim.Op{K: "sendv2", A: []int{route, tc}})
				}
			}
		}
	}
	for ch := 0; ch < 2; ch++ {
		if e.Commits[ch] < s.MaxCommits {
			ops = append(ops, ksim.Op{K: "sync", A: []int{ch}})
		}
	}
	if e.Moves < 1 {
		for i, m := range s.Movers {
			_ = m
			ops = append(ops, ksim.Op{K: "move", A: []int{i}})
		}
	}
	return ops
}

// consOfB returns what chain A's client knows about B: latest height and its consensus timestamp.
func (s *SG) consOfB(w *ksim.World) (clienttypes.Height, uint64) {
	k := w.W.Chains[0].App.IBCKeeper.ClientKeeper
	lh := k.GetClientLatestHeight(w.CS[0].Ctx, s.pl.link.ClientA)
	ts, err := k.GetClientTimestampAtHeight(w.CS[0].Ctx, s.pl.link.ClientA, lh)
	if err != nil {
		ts = 0
	}
	return lh, ts
}

func (s *SG) v1Params(w *ksim.World, op ksim.Op) (clienttypes.Height, uint64) {
	lh, ts := s.consOfB(w)
	th := clienttypes.ZeroHeight()
	switch op.A[0] {
	case 1:
		th = lh
	case 2:
		th = clienttypes.NewHeight(lh.RevisionNumber, lh.RevisionHeight+1)
	}
	var tt uint64
	switch op.A[1] {
	case 1:
		tt = ts - 1
	case 2:
		tt = ts
	case 3:
		tt = ts + 1
	}
	return th, tt
}

func (s *SG) v2Timeout(w *ksim.World, code int) uint64 {
	now := w.CS[0].TimeNs()
	_, cons := s.consOfB(w)
	switch code {
	case 0:
		return uint64(now / 1e9) // not strictly after the block time (sub-second part)
	case 1:
		return uint64(now/1e9) + 1
	case 2:
		return cons / 1e9
	case 3:
		return cons/1e9 + 1
	case 4:
		return uint64((now + int64(channeltypesv2.MaxTimeoutDelta)) / 1e9) // last second inside the window
	case 5:
		return uint64((now+int64(channeltypesv2.MaxTimeoutDelta))/1e9) + 1
	default:
		return uint64(now/1e9) + 600
	}
}

func (s *SG) Apply(w *ksim.World, op ksim.Op) ksim.Result {
	e := s.e(w)
	switch op.K {
	case "sendv1":
		th, tt := s.v1Params(w, op)
		cp := s.pl.chU
		_, r := w.SendV1(0, cp.PortA, cp.ChanA, th, tt, ibcmock.MockPacketData)
		if r.Class == ksim.OK {
			e.Sent[cp.ChanA]++
		}
		return r
	case "sendv2":
		src, _ := s.pl.v2IDs(op.A[0])
		pl := mockv2.NewMockPayload(mockv2.PortIDA, mockv2.PortIDB)
		_, r := w.SendV2(0, src, s.v2Timeout(w, op.A[1]), ksim.Signer, pl)
		if r.Class == ksim.OK {
			e.Sent[src]++
		}
		return r
	case "sync":
		ch := op.A[0]
		dt := ksim.BlockStep
		if ch == 0 {
			dt = s.stepA()
		}
		w.Commit(ch, dt)
		e.Commits[ch]++
		dst := 1 - ch
		if r := w.UpdateLatest(dst, s.pl.clientOn(dst), ch); r.Class != ksim.OK {
			return r
		}
		return ksim.Result{Class: ksim.OK}
	case "move":
		e.Moves++
		switch s.Movers[op.A[0]] {
		case "close":
			return w.Tx(0, channeltypes.NewMsgChannelCloseInit(s.pl.chU.PortA, s.pl.chU.ChanA, ksim.Signer))
		case "expire":
			w.Commit(0, ksim.TrustingPeriod+time.Second)
			return ksim.Result{Class: ksim.OK}
		case "freeze":
			// two conflicting, properly signed headers of chain B for its executing height
			h := w.CS[1].H()
			blk, _ := w.CS[1].Block(h)
			trusted := w.ClientLatest(0, s.pl.link.ClientA)
			if int64(trusted.RevisionHeight) >= h {
				w.Commit(1, ksim.BlockStep)
				h = w.CS[1].H()
				blk, _ = w.CS[1].Block(h)
			}
			vs := w.W.Vals
			h1, err1 := ksim.SignHeader(w.RawHeader(1, h, blk.Time, []byte("fork-one-app-hash-0000000000000001"), vs.Set, vs.Set), vs, trusted, vs.Set)
			h2, err2 := ksim.SignHeader(w.RawHeader(1, h, blk.Time, []byte("fork-two-app-hash-0000000000000002"), vs.Set, vs.Set), vs, trusted, vs.Set)
			if err1 != nil || err2 != nil {
				panic("cannot sign misbehaviour headers")
			}
			msg, err := clienttypes.NewMsgUpdateClient(s.pl.link.ClientA, ibctm.NewMisbehaviour(s.pl.link.ClientA, h1, h2), ksim.Signer)
			if err != nil {
				panic(err)
			}
			return w.Tx(0, msg)
		}
	}
	panic("unknown op " + op.K)
}

func (s *SG) Step(pre *ksim.World, op ksim.Op, r ksim.Result, post *ksim.World) *ksim.Fail {
	if op.K != "sendv1" && op.K != "sendv2" {
		return nil
	}
	ka := pre.W.Chains[0].App.IBCKeeper
	ctx := pre.CS[0].Ctx
	status := ka.ClientKeeper.GetClientStatus(ctx, s.pl.link.ClientA)
	lh, cons := s.consOfB(pre)
	var violated []string
	var id string
	var wantKey, wantVal []byte
	if status != exported.Active {
		violated = append(violated, "client-not-active")
	}
	if lh.IsZero() {
		violated = append(violated, "zero-height")
	}
	if op.K == "sendv1" {
		cp := s.pl.chU
		id = cp.ChanA
		ch, _ := ka.ChannelKeeper.GetChannel(ctx, cp.PortA, cp.ChanA)
		if ch.State != channeltypes.OPEN {
			violated = append(violated, "channel-not-open")
		}
		th, tt := s.v1Params(pre, op)
		if !th.IsZero() && lh.GTE(th) {
			violated = append(violated, "timeout-height-passed")
		}
		if tt != 0 && cons >= tt {
			violated = append(violated, "timeout-timestamp-passed")
		}
		seq := s.e(pre).Sent[id] + 1
		p := channeltypes.NewPacket(ibcmock.MockPacketData, seq, cp.PortA, cp.ChanA, cp.PortB, cp.ChanB, th, tt)
		wantKey, wantVal = host.PacketCommitmentKey(cp.PortA, cp.ChanA, seq), channeltypes.CommitPacket(p)
	} else {
		src, dst := s.pl.v2IDs(op.A[0])
		id = src
		tsec := s.v2Timeout(pre, op.A[1])
		now := time.Unix(0, pre.CS[0].TimeNs())
		to := time.Unix(int64(tsec), 0)
		if !to.After(now) {
			violated = append(violated, "v2-timeout-not-after-block-time")
		}
		if to.After(now.Add(channeltypesv2.MaxTimeoutDelta)) {
			violated = append(violated, "v2-timeout-beyond-max-delta")
		}
		if cons/1e9 >= tsec {
			violated = append(violated, "v2-timeout-passed-on-counterparty")
		}
		seq := s.e(pre).Sent[id] + 1
		pl := mockv2.NewMockPayload(mockv2.PortIDA, mockv2.PortIDB)
		p := channeltypesv2.NewPacket(seq, src, dst, tsec, pl)
		wantKey, wantVal = hostv2.PacketCommitmentKey(src, seq), channeltypesv2.CommitPacket(p)
	}
	if r.Class != ksim.OK {
		if len(violated) == 0 {
			// not demanded by the statement; recorded so that vacuous runs are visible
			return nil
		}
		return nil
	}
	if len(violated) > 0 {
		return &ksim.Fail{Key: "send-accepted-despite-guard/" + op.K + "/" + violated[0], Text: fmt.Sprintf("%s succeeded although %v", op, violated)}
	}
	// sequence: the response carries the allocated sequence
	want := s.e(pre).Sent[id] + 1
	var got uint64
	if op.K == "sendv2" {
		var resp channeltypesv2.MsgSendPacketResponse
		if err := resp.Unmarshal(r.Resp); err == nil {
			got = resp.Sequence
		}
	} else {
		got = want // keeper-level send: sequence checked through the commitment key below
	}
	if got != want {
		return &ksim.Fail{Key: "wrong-sequence/" + op.K, Text: fmt.Sprintf("%s on %s returned sequence %d, expected %d", op, id, got, want)}
	}
	// exactly one commitment, at that sequence, in the key space of the protocol used, plus the counter
	a, b := pre.DumpStores(0, ksim.AllStores), post.DumpStores(0, ksim.AllStores)
	diff := ksim.DiffStores(a, b)
	seqKey := "ibc/" + string(hostv2.NextSequenceSendKey(id))
	comKey := "ibc/" + string(wantKey)
	if len(diff) != 2 || !contains(diff, seqKey) || !contains(diff, comKey) {
		return &ksim.Fail{Key: "send-wrote-unexpected-keys/" + op.K, Text: fmt.Sprintf("%s on %s changed keys %q, expected exactly the counter and the commitment at sequence %d", op, id, diff, want)}
	}
	if b[comKey] != string(wantVal) {
		return &ksim.Fail{Key: "wrong-commitment-value/" + op.K, Text: fmt.Sprintf("%s stored a commitment that is not the commitment of the sent packet", op)}
	}
	if b[seqKey] != string(sdk.Uint64ToBigEndian(want+1)) {
		return &ksim.Fail{Key: "counter-not-incremented/" + op.K, Text: fmt.Sprintf("%s left the next-sequence counter of %s at %x", op, id, b[seqKey])}
	}
	return nil
}

func contains(l []string, s string) bool {
	for _, x := range l {
		if x == s {
			return true
		}
	}
	return false
}

func runC08(c *core.C) {
	d := core.Pick(c, 0, 1)
	all := []string{"close", "freeze", "expire"}
	parts := []ksim.Part{
		{Name: "v1+v2-shared-counter", Sc: &SG{MaxSend: 3, MaxCommits: 1, V1: true, V2: true, Movers: nil}, Cfg: ksim.Config{MaxDepth: 4 + d}, Share: 0.3},
		{Name: "v1-guards", Sc: &SG{MaxSend: 2, MaxCommits: 2, V1: true, Movers: all}, Cfg: ksim.Config{MaxDepth: 6 + d}, Share: 0.4},
		{Name: "v2-guards", Sc: &SG{MaxSend: 2, MaxCommits: 2, V2: true, Movers: all}, Cfg: ksim.Config{MaxDepth: 6 + d}, Share: 0.7},
		{Name: "v2-guards/whole-second-block-times", Sc: &SG{MaxSend: 2, MaxCommits: 2, V2: true, WholeSecs: true}, Cfg: ksim.Config{MaxDepth: 4 + d}},
	}
	ksim.RunParts(c, parts, [][]ksim.Op{
		{{K: "sendv1", A: []int{2, 0}}, {K: "sendv2", A: []int{2, 6}}, {K: "sendv1", A: []int{0, 3}}},
		{{K: "move", A: []int{1}}, {K: "sendv2", A: []int{3, 6}}},
	})
	c.Set("alphabet", "sendv1(timeout height in {none, client's latest, latest+1} x timestamp in {none, consensus time -1ns, =, +1ns}) | sendv2(alias|client, timeout seconds in {floor(block time), +1 s, consensus seconds, +1 s, last second within the max delta, +1 s, +600 s}) | sync(A|B) | move in {close channel, freeze client by misbehaviour, expire client}")
	c.Assume("client status is read from the 02-client keeper (its correctness is C21's subject); the 'channel not OPEN' guard is applied to v1 sends only")
}
