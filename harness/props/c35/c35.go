// Package c35 decides C35: decode(encode(v)) == v for every valid ICS-20 packet data value under
// JSON, protobuf and Solidity ABI (denomination, amount as an integer, sender, receiver, memo),
// the three encodings agree with each other, protobuf decoding rejects unknown fields, and the
// same holds for GMP packet data, GMP acknowledgements and the attestation ABI data; decoding
// arbitrary bytes never panics (small-scope part here, the large enumeration is C47's).
package c35

import (
	"bytes"
	"encoding/hex"
	"encoding/json"
	"fmt"
	"math/big"
	"strings"
	"unicode/utf8"

	sdkmath "cosmossdk.io/math"

	gmptypes "github.com/cosmos/ibc-go/v11/modules/apps/27-gmp/types"
	transfertypes "github.com/cosmos/ibc-go/v11/modules/apps/transfer/types"
	"github.com/cosmos/ibc-go/v11/modules/light-clients/attestations"

	"verif/harness/core"
)

func init() { core.Register("C35", "exploration", run) }

var encodings = []string{transfertypes.EncodingJSON, transfertypes.EncodingProtobuf, transfertypes.EncodingABI}

func short(enc string) string {
	switch enc {
	case transfertypes.EncodingJSON:
		return "json"
	case transfertypes.EncodingProtobuf:
		return "proto"
	case transfertypes.EncodingABI:
		return "abi"
	}
	return enc
}

var maxUint256 = new(big.Int).Sub(new(big.Int).Lsh(big.NewInt(1), 256), big.NewInt(1))

// refAmount is the reference reading of an ICS-20 amount: a string of decimal digits denoting an
// integer in [1, 2^256-1] (ICS-20: "amount" is a uint256 encoded as a decimal string).
func refAmount(s string) (*big.Int, bool) {
	if s == "" {
		return nil, false
	}
	for _, r := range s {
		if r < '0' || r > '9' {
			return nil, false
		}
	}
	n, ok := new(big.Int).SetString(s, 10)
	if !ok || n.Sign() <= 0 || n.Cmp(maxUint256) > 0 {
		return nil, false
	}
	return n, true
}

func rep(n int, s string) string { return strings.Repeat(s, n) }

type ics20Case struct {
	Denom, Amount, Sender, Receiver, Memo string
}

func (v ics20Case) data() transfertypes.FungibleTokenPacketData {
	return transfertypes.NewFungibleTokenPacketData(v.Denom, v.Amount, v.Sender, v.Receiver, v.Memo)
}

type stats struct {
	evals, valid int
}

// unknown protobuf fields: (field number, wire type, payload) encoded by hand.
type unknownField struct {
	Name string
	Raw  []byte
}

func varint(x uint64) []byte {
	var out []byte
	for x >= 0x80 {
		out = append(out, byte(x)|0x80)
		x >>= 7
	}
	return append(out, byte(x))
}

func unknownFields(maxKnown uint64, thorough bool) []unknownField {
	nums := []uint64{maxKnown + 1, 15, 16, 1024, 2047, 2048}
	if thorough {
		nums = append(nums, maxKnown+2, 100, 1023, 1025, 3072, 1<<20, 1<<29-1)
	}
	var out []unknownField
	for _, n := range nums {
		tag := func(wt uint64) []byte { return varint(n<<3 | wt) }
		out = append(out,
			unknownField{fmt.Sprintf("%d:varint0", n), append(tag(0), 0)},
			unknownField{fmt.Sprintf("%d:varint1", n), append(tag(0), 1)},
			unknownField{fmt.Sprintf("%d:fixed64", n), append(tag(1), 1, 2, 3, 4, 5, 6, 7, 8)},
			unknownField{fmt.Sprintf("%d:bytes-empty", n), append(tag(2), 0)},
			unknownField{fmt.Sprintf("%d:bytes-x", n), append(tag(2), 1, 'x')},
			unknownField{fmt.Sprintf("%d:fixed32", n), append(tag(5), 1, 2, 3, 4)},
		)
	}
	return out
}

// ---------------------------------------------------------------------------------------------
// ICS-20

func evalICS20(c *core.C, v ics20Case, ufs []unknownField, st *stats) {
	st.evals++
	for _, s := range []string{v.Denom, v.Amount, v.Sender, v.Receiver, v.Memo} {
		if !utf8.ValidString(s) {
			c.Hist("ics20_classes", "not-utf8 (outside every encoding's string type)")
			return
		}
	}
	d := v.data()
	implValid := d.ValidateBasic() == nil
	want, refOK := refAmount(v.Amount)
	switch {
	case !implValid && refOK:
		// only the amount can make the reference and the implementation differ in this direction
		if _, okImpl := new(big.Int).SetString(v.Amount, 0); !okImpl {
			c.Hist("ics20_classes", "decimal amount rejected by ValidateBasic (amount="+v.Amount+")")
		} else {
			c.Hist("ics20_classes", "invalid value")
		}
		return
	case !implValid:
		c.Hist("ics20_classes", "invalid value")
		return
	case !refOK:
		c.Hist("ics20_classes", "accepted by ValidateBasic but amount is not a decimal uint256 string (amount="+v.Amount+"): outside the reference's valid values")
		return
	}
	st.valid++
	c.Hist("ics20_classes", "valid")
	rp := map[string]any{"kind": "ics20", "ics20": v}
	ints := map[string]*big.Int{}
	for _, enc := range encodings {
		e := short(enc)
		bz, err := transfertypes.MarshalPacketData(d, transfertypes.V1, enc)
		if err != nil {
			c.Hist("ics20_unrepresentable", e)
			continue
		}
		itr, err := transfertypes.UnmarshalPacketData(bz, transfertypes.V1, enc)
		if err != nil {
			c.Violation(fmt.Sprintf("ics20/decode-rejects/%s/%s", e, caseKey(v)), fmt.Sprintf("%s encoding of the valid value %+v is rejected on decode: %v", e, v, err), rp)
			continue
		}
		if got := itr.Token.Denom.Path(); got != v.Denom {
			c.Violation(fmt.Sprintf("ics20/denom/%s/%x", e, v.Denom), fmt.Sprintf("%s round trip changes the denomination %q -> %q", e, v.Denom, got), rp)
		}
		// the integer the transfer module moves: Token.ToCoin / Token.Validate read the decoded
		// amount string with sdkmath.NewIntFromString (ToCoin itself is not called here because
		// sdk.NewCoin panics on base denominations that are not SDK coin denominations)
		amt, aok := sdkmath.NewIntFromString(itr.Token.Amount)
		switch {
		case !aok:
			c.Violation(fmt.Sprintf("ics20/amount/%s/%s", e, v.Amount), fmt.Sprintf("%s round trip: decoded amount %q cannot be read as an integer", e, itr.Token.Amount), rp)
		case amt.BigInt().Cmp(want) != 0:
			c.Violation(fmt.Sprintf("ics20/amount/%s/%s", e, v.Amount), fmt.Sprintf("%s round trip: amount %q (decimal %s) decodes to %q which the transfer module reads as the integer %s", e, v.Amount, want, itr.Token.Amount, amt), rp)
		}
		if aok {
			ints[e] = amt.BigInt()
		}
		if itr.Sender != v.Sender {
			c.Violation(fmt.Sprintf("ics20/sender/%s/%x", e, v.Sender), fmt.Sprintf("%s round trip changes the sender %q -> %q", e, v.Sender, itr.Sender), rp)
		}
		if itr.Receiver != v.Receiver {
			c.Violation(fmt.Sprintf("ics20/receiver/%s/%x", e, v.Receiver), fmt.Sprintf("%s round trip changes the receiver %q -> %q", e, v.Receiver, itr.Receiver), rp)
		}
		if itr.Memo != v.Memo {
			c.Violation(fmt.Sprintf("ics20/memo/%s/%x", e, v.Memo), fmt.Sprintf("%s round trip changes the memo %q -> %q", e, v.Memo, itr.Memo), rp)
		}
		if enc == transfertypes.EncodingProtobuf {
			for _, uf := range ufs {
				for _, pos := range []string{"append", "prepend"} {
					st.evals++
					mut := append(append([]byte{}, bz...), uf.Raw...)
					if pos == "prepend" {
						mut = append(append([]byte{}, uf.Raw...), bz...)
					}
					if _, err := transfertypes.UnmarshalPacketData(mut, transfertypes.V1, enc); err == nil {
						c.Violation(fmt.Sprintf("ics20/unknown-field/%s/%s", uf.Name, pos), fmt.Sprintf("protobuf packet data with unknown field %s (%sed, %x) is accepted", uf.Name, pos, uf.Raw), map[string]any{"kind": "ics20", "ics20": v})
					}
				}
			}
		}
	}
	// cross-encoding agreement on the integer (the other fields were each compared with v)
	if a, b := ints["json"], ints["abi"]; a != nil && b != nil && a.Cmp(b) != 0 {
		c.Violation("ics20/cross-amount/json-abi/"+v.Amount, fmt.Sprintf("amount %q is transferred as %s when the packet is JSON-encoded and as %s when it is ABI-encoded", v.Amount, a, b), rp)
	}
	if a, b := ints["proto"], ints["abi"]; a != nil && b != nil && a.Cmp(b) != 0 {
		c.Violation("ics20/cross-amount/proto-abi/"+v.Amount, fmt.Sprintf("amount %q is transferred as %s when the packet is protobuf-encoded and as %s when it is ABI-encoded", v.Amount, a, b), rp)
	}
	if a, b := ints["json"], ints["proto"]; a != nil && b != nil && a.Cmp(b) != 0 {
		c.Violation("ics20/cross-amount/json-proto/"+v.Amount, fmt.Sprintf("amount %q is transferred as %s (JSON) and %s (protobuf)", v.Amount, a, b), rp)
	}
}

func caseKey(v any) string { bz, _ := json.Marshal(v); return string(bz) }

func ics20Alphabet(c *core.C) (denoms, amounts, senders, receivers, memos []string) {
	u256 := maxUint256.String()
	over := new(big.Int).Add(maxUint256, big.NewInt(1)).String()
	denoms = []string{"a", "transfer/channel-1/uatom", "transfer/channel-1/transfer/channel-1/a", "a/b/c", "", "transfer/channel-1/", "дenom/é"}
	amounts = []string{"1", "18446744073709551616", u256, over, "0", "-1", "", "010", "08", "0x10", "1_0", "+1", "1.5"}
	senders = []string{"", " ", "s", "é <&>\"\\", rep(33, "s")}
	receivers = []string{"", "r", "\x00", rep(32, "r")}
	memos = []string{"", "m", `{"k":"é"}`, rep(65, "m")}
	if !c.Quick() {
		denoms = append(denoms, "uatom", "07-tendermint-1/channel-1/a", "transfer/channel-x/a", "ibc/27394FB092D2ECCD56123C74F36E4C1F926001CEADA9CA97EA622B25F41E5EB2", "/", " ", "transfer/channel-18446744073709551615/"+rep(40, "z"))
		amounts = append(amounts, "2", "18446744073709551615", "007", "01", "0010", "00", "0b11", "0o17", "1e3", " 1", "1 ", "١", u256[:len(u256)-1], "0"+u256, "010"+rep(30, "0"))
		senders = append(senders, "cosmos1qyqszqgpqyqszqgpqyqszqgpqyqszqgpjnp7du", "\t", "s\n", rep(32, "s"))
		receivers = append(receivers, " ", "0x1234567890abcdef1234567890abcdef12345678", rep(31, "r"), "ré")
		memos = append(memos, "\u0000", rep(32, "m"), rep(31, "é"), `{"forward":{"receiver":"r","port":"transfer","channel":"channel-0"}}`)
	}
	return
}

// ---------------------------------------------------------------------------------------------
// GMP

type gmpCase struct {
	Sender, Receiver string
	Salt, Payload    []byte
	Memo             string
}

func evalGMP(c *core.C, v gmpCase, ufs []unknownField, st *stats) {
	st.evals++
	for _, s := range []string{v.Sender, v.Receiver, v.Memo} {
		if !utf8.ValidString(s) {
			c.Hist("gmp_classes", "not-utf8")
			return
		}
	}
	d := gmptypes.NewGMPPacketData(v.Sender, v.Receiver, v.Salt, v.Payload, v.Memo)
	if d.ValidateBasic() != nil {
		c.Hist("gmp_classes", "invalid value")
		return
	}
	st.valid++
	c.Hist("gmp_classes", "valid")
	rp := map[string]any{"kind": "gmp", "gmp": v}
	for _, enc := range encodings {
		e := short(enc)
		bz, err := gmptypes.MarshalPacketData(&d, gmptypes.Version, enc)
		if err != nil {
			c.Hist("gmp_unrepresentable", e)
			continue
		}
		got, err := gmptypes.UnmarshalPacketData(bz, gmptypes.Version, enc)
		if err != nil {
			c.Violation(fmt.Sprintf("gmp/decode-rejects/%s/%s", e, caseKey(v)), fmt.Sprintf("%s encoding of the valid GMP packet %s is rejected on decode: %v", e, caseKey(v), err), rp)
			continue
		}
		if got.Sender != v.Sender || got.Receiver != v.Receiver || got.Memo != v.Memo || !bytes.Equal(got.Salt, v.Salt) || !bytes.Equal(got.Payload, v.Payload) {
			c.Violation(fmt.Sprintf("gmp/fields/%s/%s", e, caseKey(v)), fmt.Sprintf("%s round trip of GMP packet %s yields %s", e, caseKey(v), caseKey(gmpCase{got.Sender, got.Receiver, got.Salt, got.Payload, got.Memo})), rp)
		}
		if enc == gmptypes.EncodingProtobuf {
			for _, uf := range ufs {
				for _, pos := range []string{"append", "prepend"} {
					st.evals++
					mut := append(append([]byte{}, bz...), uf.Raw...)
					if pos == "prepend" {
						mut = append(append([]byte{}, uf.Raw...), bz...)
					}
					if _, err := gmptypes.UnmarshalPacketData(mut, gmptypes.Version, enc); err == nil {
						c.Violation(fmt.Sprintf("gmp/unknown-field/%s/%s", uf.Name, pos), fmt.Sprintf("protobuf GMP packet data with unknown field %s (%sed) is accepted", uf.Name, pos), rp)
					}
				}
			}
		}
	}
}

func evalGMPAck(c *core.C, result []byte, ufs []unknownField, st *stats) {
	st.evals++
	st.valid++
	ack := gmptypes.NewAcknowledgement(result)
	rp := map[string]any{"kind": "gmpack", "result": result}
	for _, enc := range encodings {
		e := short(enc)
		bz, err := gmptypes.MarshalAcknowledgement(&ack, gmptypes.Version, enc)
		if err != nil {
			c.Hist("gmpack_unrepresentable", e)
			continue
		}
		got, err := gmptypes.UnmarshalAcknowledgement(bz, gmptypes.Version, enc)
		if err != nil {
			c.Violation(fmt.Sprintf("gmpack/decode-rejects/%s/%x", e, result), fmt.Sprintf("%s encoding of the GMP acknowledgement %x is rejected on decode: %v", e, result, err), rp)
			continue
		}
		if !bytes.Equal(got.Result, result) {
			c.Violation(fmt.Sprintf("gmpack/result/%s/%x", e, result), fmt.Sprintf("%s round trip of GMP acknowledgement %x yields %x", e, result, got.Result), rp)
		}
		if enc == gmptypes.EncodingProtobuf {
			for _, uf := range ufs {
				for _, pos := range []string{"append", "prepend"} {
					st.evals++
					mut := append(append([]byte{}, bz...), uf.Raw...)
					if pos == "prepend" {
						mut = append(append([]byte{}, uf.Raw...), bz...)
					}
					if _, err := gmptypes.UnmarshalAcknowledgement(mut, gmptypes.Version, enc); err == nil {
						c.Violation(fmt.Sprintf("gmpack/unknown-field/%s/%s", uf.Name, pos), fmt.Sprintf("protobuf GMP acknowledgement with unknown field %s (%sed) is accepted", uf.Name, pos), rp)
					}
				}
			}
		}
	}
}

func byteAlphabet(c *core.C) [][]byte {
	out := [][]byte{nil, {}, {0}, {0xff, 0x00}, bytes.Repeat([]byte{0xab}, 32), bytes.Repeat([]byte{0xcd}, 33)}
	if !c.Quick() {
		out = append(out, []byte{1}, []byte("{}"), bytes.Repeat([]byte{0}, 31), bytes.Repeat([]byte{0xff}, 64), bytes.Repeat([]byte{7}, 65))
	}
	return out
}

// ---------------------------------------------------------------------------------------------
// attestation ABI

const nanosPerSecond = 1_000_000_000

func evalState(c *core.C, h, ts uint64, st *stats) {
	st.evals++
	if ts%nanosPerSecond != 0 {
		// the ABI form carries whole seconds: such a value is not representable in the encoding
		c.Hist("attestation_classes", "state: sub-second timestamp (not representable)")
		return
	}
	st.valid++
	c.Hist("attestation_classes", "state: valid")
	v := attestations.StateAttestation{Height: h, Timestamp: ts}
	rp := map[string]any{"kind": "state", "height": h, "timestamp": ts}
	bz, err := v.ABIEncode()
	if err != nil {
		c.Hist("attestation_unrepresentable", "state")
		return
	}
	got, err := attestations.ABIDecodeStateAttestation(bz)
	if err != nil {
		c.Violation(fmt.Sprintf("att-state/decode-rejects/%d/%d", h, ts), fmt.Sprintf("ABI encoding of StateAttestation{%d,%d} is rejected on decode: %v", h, ts, err), rp)
		return
	}
	if got.Height != h || got.Timestamp != ts {
		c.Violation(fmt.Sprintf("att-state/fields/%d/%d", h, ts), fmt.Sprintf("ABI round trip of StateAttestation{%d,%d} yields {%d,%d}", h, ts, got.Height, got.Timestamp), rp)
	}
}

type packetCase struct {
	Height  uint64
	Packets [][2][]byte
}

func evalPacketAtt(c *core.C, v packetCase, st *stats) {
	st.evals++
	pa := attestations.PacketAttestation{Height: v.Height}
	for _, p := range v.Packets {
		if len(p[0]) != 32 || len(p[1]) != 32 {
			c.Hist("attestation_classes", "packet: path/commitment not 32 bytes (not representable)")
			return
		}
		pa.Packets = append(pa.Packets, attestations.PacketCompact{Path: p[0], Commitment: p[1]})
	}
	st.valid++
	c.Hist("attestation_classes", "packet: valid")
	rp := map[string]any{"kind": "packet", "packet": v}
	key := fmt.Sprintf("%d/%d", v.Height, len(v.Packets))
	for _, p := range v.Packets {
		key += fmt.Sprintf("/%x.%x", p[0][:2], p[1][:2])
	}
	bz, err := pa.ABIEncode()
	if err != nil {
		c.Hist("attestation_unrepresentable", "packet")
		return
	}
	got, err := attestations.ABIDecodePacketAttestation(bz)
	if err != nil {
		c.Violation("att-packet/decode-rejects/"+key, fmt.Sprintf("ABI encoding of PacketAttestation %s is rejected on decode: %v", key, err), rp)
		return
	}
	ok := got.Height == v.Height && len(got.Packets) == len(v.Packets)
	for i := 0; ok && i < len(v.Packets); i++ {
		ok = bytes.Equal(got.Packets[i].Path, v.Packets[i][0]) && bytes.Equal(got.Packets[i].Commitment, v.Packets[i][1])
	}
	if !ok {
		c.Violation("att-packet/fields/"+key, fmt.Sprintf("ABI round trip of PacketAttestation %s yields height %d and %d packets with different contents", key, got.Height, len(got.Packets)), rp)
	}
}

// ---------------------------------------------------------------------------------------------
// no panic on arbitrary bytes (small scope; C47 runs the large enumeration)

type decoder struct {
	Name string
	F    func([]byte)
}

func decoders() []decoder {
	var out []decoder
	for _, enc := range encodings {
		enc := enc
		out = append(out,
			decoder{"ics20/" + short(enc), func(b []byte) { _, _ = transfertypes.UnmarshalPacketData(b, transfertypes.V1, enc) }},
			decoder{"gmp/" + short(enc), func(b []byte) { _, _ = gmptypes.UnmarshalPacketData(b, gmptypes.Version, enc) }},
			decoder{"gmpack/" + short(enc), func(b []byte) { _, _ = gmptypes.UnmarshalAcknowledgement(b, gmptypes.Version, enc) }},
		)
	}
	out = append(out,
		decoder{"ics20/default-encoding", func(b []byte) { _, _ = transfertypes.UnmarshalPacketData(b, transfertypes.V1, "") }},
		decoder{"ics20/abi-raw", func(b []byte) { _, _ = transfertypes.DecodeABIFungibleTokenPacketData(b) }},
		decoder{"att-state/abi", func(b []byte) { _, _ = attestations.ABIDecodeStateAttestation(b) }},
		decoder{"att-packet/abi", func(b []byte) { _, _ = attestations.ABIDecodePacketAttestation(b) }},
	)
	return out
}

func tryDecode(c *core.C, d decoder, in []byte) {
	if p := core.Catch(func() { d.F(in) }); p != "" {
		c.Violation(fmt.Sprintf("panic/%s/%x", d.Name, in), fmt.Sprintf("decoder %s panics on input %x: %s", d.Name, in, p), map[string]any{"kind": "bytes", "decoder": d.Name, "hex": hex.EncodeToString(in)})
	}
}

func validEncodings() map[string][][]byte {
	out := map[string][][]byte{}
	d := transfertypes.NewFungibleTokenPacketData("transfer/channel-1/uatom", "100", "sender", "receiver", "memo")
	g := gmptypes.NewGMPPacketData("sender", "receiver", []byte{1, 2}, []byte("payload"), "memo")
	a := gmptypes.NewAcknowledgement([]byte("result"))
	for _, enc := range encodings {
		if bz, err := transfertypes.MarshalPacketData(d, transfertypes.V1, enc); err == nil {
			out["ics20/"+short(enc)] = append(out["ics20/"+short(enc)], bz)
			if enc == transfertypes.EncodingABI {
				out["ics20/abi-raw"] = append(out["ics20/abi-raw"], bz)
			}
		}
		if bz, err := gmptypes.MarshalPacketData(&g, gmptypes.Version, enc); err == nil {
			out["gmp/"+short(enc)] = append(out["gmp/"+short(enc)], bz)
		}
		if bz, err := gmptypes.MarshalAcknowledgement(&a, gmptypes.Version, enc); err == nil {
			out["gmpack/"+short(enc)] = append(out["gmpack/"+short(enc)], bz)
		}
	}
	out["ics20/default-encoding"] = out["ics20/json"]
	sa := attestations.StateAttestation{Height: 7, Timestamp: 9 * nanosPerSecond}
	if bz, err := sa.ABIEncode(); err == nil {
		out["att-state/abi"] = append(out["att-state/abi"], bz)
	}
	pa := attestations.PacketAttestation{Height: 7, Packets: []attestations.PacketCompact{{Path: bytes.Repeat([]byte{1}, 32), Commitment: bytes.Repeat([]byte{2}, 32)}}}
	if bz, err := pa.ABIEncode(); err == nil {
		out["att-packet/abi"] = append(out["att-packet/abi"], bz)
	}
	return out
}

// ---------------------------------------------------------------------------------------------

func run(c *core.C) {
	thorough := !c.Quick()
	if c.Replay != "" {
		var r struct {
			Kind      string
			Ics20     ics20Case
			Gmp       gmpCase
			Result    []byte
			Height    uint64
			Timestamp uint64
			Packet    packetCase
			Decoder   string
			Hex       string
		}
		if err := c.LoadReplay(&r); err != nil {
			c.Broken("replay: %v", err)
			return
		}
		st := &stats{}
		switch r.Kind {
		case "ics20":
			evalICS20(c, r.Ics20, unknownFields(5, true), st)
		case "gmp":
			evalGMP(c, r.Gmp, unknownFields(5, true), st)
		case "gmpack":
			evalGMPAck(c, r.Result, unknownFields(1, true), st)
		case "state":
			evalState(c, r.Height, r.Timestamp, st)
		case "packet":
			evalPacketAtt(c, r.Packet, st)
		case "bytes":
			in, _ := hex.DecodeString(r.Hex)
			for _, d := range decoders() {
				if d.Name == r.Decoder {
					tryDecode(c, d, in)
				}
			}
		default:
			c.Broken("replay: unknown kind %q", r.Kind)
		}
		c.Set("evaluations", 1)
		c.Set("distinct_nontrivial", 2)
		c.Set("rule", "replay of one case")
		c.Sample(r)
		return
	}

	// ICS-20
	ics := &stats{}
	denoms, amounts, senders, receivers, memos := ics20Alphabet(c)
	ufs5 := unknownFields(5, thorough)
	core.Product([]int{len(denoms), len(amounts), len(senders), len(receivers), len(memos)}, func(i []int) bool {
		v := ics20Case{denoms[i[0]], amounts[i[1]], senders[i[2]], receivers[i[3]], memos[i[4]]}
		before := ics.valid
		evalICS20(c, v, ufs5, ics)
		if ics.valid != before && ics.valid%1500 == 1 {
			c.Sample(map[string]any{"kind": "ics20", "value": v})
		}
		return ics.evals%256 != 0 || !c.TimeUp()
	})
	c.Set("ics20_values", len(denoms)*len(amounts)*len(senders)*len(receivers)*len(memos))
	c.Set("ics20_valid_values", ics.valid)

	// GMP packet data and acknowledgements
	gmp := &stats{}
	gs := []string{"", " ", "s", "é <&>\"\\", rep(33, "s")}
	gr := []string{"", "r", rep(32, "r")}
	gm := []string{"", "m", `{"k":"é"}`, rep(65, "m")}
	if thorough {
		gs = append(gs, rep(2048, "s"), rep(2049, "s"), "0x1234567890abcdef1234567890abcdef12345678")
		gr = append(gr, "\x00", rep(2049, "r"), "ré")
		gm = append(gm, rep(32, "m"), "\u0000")
	}
	bs := byteAlphabet(c)
	core.Product([]int{len(gs), len(gr), len(bs), len(bs), len(gm)}, func(i []int) bool {
		v := gmpCase{gs[i[0]], gr[i[1]], bs[i[2]], bs[i[3]], gm[i[4]]}
		before := gmp.valid
		evalGMP(c, v, ufs5, gmp)
		if gmp.valid != before && gmp.valid%1500 == 1 {
			c.Sample(map[string]any{"kind": "gmp", "sender": v.Sender, "receiver": v.Receiver, "salt_hex": hex.EncodeToString(v.Salt), "payload_len": len(v.Payload), "memo": v.Memo})
		}
		return gmp.evals%256 != 0 || !c.TimeUp()
	})
	c.Set("gmp_values", len(gs)*len(gr)*len(bs)*len(bs)*len(gm))
	c.Set("gmp_valid_values", gmp.valid)
	ack := &stats{}
	ufs1 := unknownFields(1, thorough)
	for _, r := range bs {
		evalGMPAck(c, r, ufs1, ack)
	}
	c.Set("gmp_ack_values", ack.valid)

	// attestation ABI
	att := &stats{}
	lat := core.SmallLattice64()
	if thorough {
		lat = core.Lattice64()
	}
	const maxSeconds = (1<<64 - 1) / nanosPerSecond
	var stamps []uint64
	for _, s := range lat {
		if s <= maxSeconds {
			stamps = append(stamps, s*nanosPerSecond)
		}
		stamps = append(stamps, s) // mostly sub-second values: not representable
	}
	stamps = append(stamps, maxSeconds*nanosPerSecond, (maxSeconds-1)*nanosPerSecond)
	for _, h := range lat {
		for _, ts := range stamps {
			evalState(c, h, ts, att)
		}
	}
	words := [][]byte{bytes.Repeat([]byte{0}, 32), bytes.Repeat([]byte{0xff}, 32), append(bytes.Repeat([]byte{0}, 31), 1), append([]byte{1}, bytes.Repeat([]byte{0}, 31)...)}
	if thorough {
		words = append(words, []byte("0123456789abcdef0123456789abcdef"), bytes.Repeat([]byte{0x80}, 32))
	}
	odd := [][]byte{nil, {1}, bytes.Repeat([]byte{2}, 31), bytes.Repeat([]byte{3}, 33)}
	var pairs [][2][]byte
	for _, p := range words {
		for _, q := range words {
			pairs = append(pairs, [2][]byte{p, q})
		}
	}
	nValidPairs := len(pairs)
	for _, o := range odd {
		pairs = append(pairs, [2][]byte{o, words[1]}, [2][]byte{words[1], o})
	}
	maxList := core.Pick(c, 2, 3)
	heights := []uint64{0, 1, 1<<63 - 1, 1 << 63, 1<<64 - 1}
	for n := 0; n <= maxList && !c.TimeUp(); n++ {
		dims := make([]int, n)
		for i := range dims {
			dims[i] = len(pairs)
			if n == 3 {
				dims[i] = nValidPairs / core.Pick(c, 1, 2) // keep the 3-element lists affordable
			}
		}
		emit := func(idx []int) bool {
			for _, h := range heights {
				v := packetCase{Height: h}
				for _, j := range idx {
					v.Packets = append(v.Packets, pairs[j])
				}
				evalPacketAtt(c, v, att)
			}
			return att.evals%1024 != 0 || !c.TimeUp()
		}
		if n == 0 {
			emit(nil)
			continue
		}
		core.Product(dims, emit)
	}
	c.Set("attestation_valid_values", att.valid)
	c.Sample(map[string]any{"kind": "state-attestation", "height": lat[len(lat)-1], "timestamp_ns": uint64(maxSeconds * nanosPerSecond)})

	// no panic, small scope
	np := 0
	valid := validEncodings()
	maxLen := core.Pick(c, 1, 2)
	for _, d := range decoders() {
		if len(valid[d.Name]) == 0 {
			c.Broken("no valid encoding for decoder %s", d.Name)
		}
		core.Strings(allBytes(), maxLen, func(s string) bool {
			np++
			tryDecode(c, d, []byte(s))
			return np%4096 != 0 || !c.TimeUp()
		})
		for _, bz := range valid[d.Name] {
			core.Mutations(bz, func(m core.Mutation) bool {
				np++
				tryDecode(c, d, m.Out)
				return np%4096 != 0 || !c.TimeUp()
			})
		}
	}
	// JSON-token enumeration for the JSON decoders: every concatenation of <= 3 (thorough 4) tokens is a
	// whole input (so `null`, `true`, `0`, `""`, `[]`, `{}` ... are all decoded), and <= 2 (3) tokens
	// as the value of each top-level field
	tokTargets := map[string][]string{
		"ics20/json":             {"%s", `{"denom":%s,"amount":"1","sender":"s","receiver":"r"}`, `{"denom":"a","amount":%s,"sender":"s","receiver":"r"}`, `{"denom":"a","amount":"1","sender":%s,"receiver":"r"}`, `{"denom":"a","amount":"1","sender":"s","receiver":%s}`, `{"denom":"a","amount":"1","sender":"s","receiver":"r","memo":%s}`},
		"ics20/default-encoding": {"%s", `{"denom":"a","amount":"1","sender":"s","receiver":"r","memo":%s}`},
		"gmp/json":               {"%s", `{"sender":%s}`, `{"sender":"s","receiver":%s}`, `{"sender":"s","salt":%s}`, `{"sender":"s","payload":%s}`, `{"sender":"s","memo":%s}`},
		"gmpack/json":            {"%s", `{"result":%s}`},
	}
	tok := 0
	for _, d := range decoders() {
		for _, w := range tokTargets[d.Name] {
			n := core.Pick(c, 3, 4)
			if w != "%s" {
				n = core.Pick(c, 2, 3)
			}
			tokenSequences(n, func(seq string) bool {
				tok++
				tryDecode(c, d, []byte(strings.Replace(w, "%s", seq, 1)))
				return tok%4096 != 0 || !c.TimeUp()
			})
		}
	}
	np += tok
	c.Set("json_token_inputs", tok)
	c.Set("no_panic_inputs", np)

	c.Set("evaluations", ics.evals+gmp.evals+ack.evals+att.evals+np)
	c.Set("distinct_nontrivial", ics.valid+gmp.valid+ack.valid+att.valid)
	c.Set("rule", "full product of the per-field alphabets (ICS-20: denom x amount x sender x receiver x memo; GMP: sender x receiver x salt x payload x memo; GMP ack results; state attestations height x timestamp; packet attestations height x lists of (path, commitment)); each value is encoded and decoded under every encoding that represents it, protobuf encodings are additionally extended with every unknown field of the list at both ends; non-trivial = distinct VALID values (accepted by the type's ValidateBasic, valid UTF-8, decimal uint256 amount / whole-second timestamp / 32-byte words) whose round trip was compared field by field; evaluations also counts invalid values, unknown-field probes and no-panic inputs")
	c.Assume("valid ICS-20 value = FungibleTokenPacketData.ValidateBasic accepts it, all strings are valid UTF-8 and the amount is a string of decimal digits denoting 1..2^256-1 (the ICS-20 reading); its integer is the decimal one, computed with math/big")
	c.Assume("the integer of a decoded transfer is sdkmath.NewIntFromString(Token.Amount), which is what Token.ToCoin / Token.Validate use, i.e. the amount the transfer module would move")
	c.Assume("a value that an encoder refuses is not representable in that encoding and is outside the quantifier (counted in *_unrepresentable)")
	c.Assume("arbitrary-bytes robustness is decided here only up to length 1 (quick) / 2 (thorough) plus single mutations of one valid encoding per decoder, plus every sequence of <= 3 (thorough 4) JSON tokens for the JSON decoders; C47 runs the larger enumeration over the same decoders")
}

var jsonTokens = []string{"null", "true", "false", "0", "-1", "1e999", `""`, `"a"`, "{", "}", "[", "]", ":", ",", " ", "\n"}

// tokenSequences calls emit with the concatenation of every sequence of 0..max tokens.
func tokenSequences(max int, emit func(s string) bool) {
	var rec func(prefix string, n int) bool
	rec = func(prefix string, n int) bool {
		if n == 0 {
			return emit(prefix)
		}
		for _, t := range jsonTokens {
			if !rec(prefix+t, n-1) {
				return false
			}
		}
		return true
	}
	for l := 0; l <= max; l++ {
		if !rec("", l) {
			return
		}
	}
}

func allBytes() []string {
	out := make([]string, 256)
	for i := range out {
		out[i] = string([]byte{byte(i)})
	}
	return out
}
