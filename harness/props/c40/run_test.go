package c40

import (
	"testing"

	"verif/harness/core"
)

func TestRun(t *testing.T) { core.RunFromEnv(t) }
