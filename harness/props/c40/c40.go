// Package c40 checks property C40: an IBC callback never uses more gas than the smaller of the remaining gas and
// the user-requested limit capped at the chain maximum; a failing source (acknowledgement / timeout) callback cannot
// block the packet life-cycle and its own state changes are discarded, except that running out of gas only because
// the relayer supplied less than the committed limit aborts the whole transaction; a failing destination callback
// turns the receive into an error acknowledgement with no application state change; a failing send callback
// rejects the send.
//
// Technique: fault enumeration over the real handlers of the callbacks test application
// (modules/apps/callbacks/testing/simapp: ICS-20 transfer wrapped by the callbacks middleware, v1 and v2) on two
// ibctesting chains. One scenario puts a set of packets in flight (one per user gas limit and packet fate); every
// case then executes ONE real message (MsgTransfer / MsgSendPacket, MsgAcknowledgement, MsgTimeout, MsgRecvPacket,
// or the middleware's WriteAcknowledgement for the asynchronous path) on a branch of the chain state, the way
// baseapp runs a transaction: a gas meter with a chosen limit, state kept only if the handler neither fails nor
// panics. The contract is a harness function installed in the mock contract keeper with a fixed consumption c and a
// selectable behaviour; the chain maximum is varied by routing to callbacks middlewares built with that maximum.
// The reference is the statement, evaluated on (remaining, user limit, max, c, behaviour).
package c40

import (
	"bytes"
	"encoding/json"
	"errors"
	"fmt"
	"math"
	"sort"
	"strconv"
	"strings"
	"time"

	dbm "github.com/cosmos/cosmos-db"

	"cosmossdk.io/log/v2"
	sdkmath "cosmossdk.io/math"

	storetypes "github.com/cosmos/cosmos-sdk/store/v2/types"
	simtestutil "github.com/cosmos/cosmos-sdk/testutil/sims"
	sdk "github.com/cosmos/cosmos-sdk/types"

	ibccallbacks "github.com/cosmos/ibc-go/v11/modules/apps/callbacks"
	cbsimapp "github.com/cosmos/ibc-go/v11/modules/apps/callbacks/testing/simapp"
	callbacktypes "github.com/cosmos/ibc-go/v11/modules/apps/callbacks/types"
	ibccallbacksv2 "github.com/cosmos/ibc-go/v11/modules/apps/callbacks/v2"
	"github.com/cosmos/ibc-go/v11/modules/apps/transfer"
	transfertypes "github.com/cosmos/ibc-go/v11/modules/apps/transfer/types"
	transferv2 "github.com/cosmos/ibc-go/v11/modules/apps/transfer/v2"
	clienttypes "github.com/cosmos/ibc-go/v11/modules/core/02-client/types"
	channeltypes "github.com/cosmos/ibc-go/v11/modules/core/04-channel/types"
	channeltypesv2 "github.com/cosmos/ibc-go/v11/modules/core/04-channel/v2/types"
	porttypes "github.com/cosmos/ibc-go/v11/modules/core/05-port/types"
	host "github.com/cosmos/ibc-go/v11/modules/core/24-host"
	hostv2 "github.com/cosmos/ibc-go/v11/modules/core/24-host/v2"
	ibcapi "github.com/cosmos/ibc-go/v11/modules/core/api"
	ibcexported "github.com/cosmos/ibc-go/v11/modules/core/exported"
	ibctesting "github.com/cosmos/ibc-go/v11/testing"
	ibcmock "github.com/cosmos/ibc-go/v11/testing/mock"

	"verif/harness/core"
)

func init() { core.Register("C40", "fault_enumeration", run) }

const (
	refMax       = uint64(1_000_000) // "max" of the lattice (also the value hard-wired in the callbacks test app)
	amount       = int64(100)
	contractAddr = "c40-contract"
	inf          = uint64(math.MaxUint64)
)

// ---- contract behaviours and the gas lattice ----------------------------------------------------

type beh int

const (
	bSuccess  beh = iota // burns c, returns nil
	bError               // burns c, returns an error
	bPanic               // burns c, panics (not an out-of-gas panic)
	bOogPanic            // burns c, then everything that is left plus one: out-of-gas panic
	bOogError            // burns c, then everything that is left plus one, swallows the panic and returns an error
	nBeh
)

var behNames = []string{"success", "error", "panic", "oog-panic", "oog-error"}

type gval struct {
	Name string
	V    uint64
}

func lattices(c uint64, quick bool) (rs, us, ms []gval) {
	g := func(n string, v uint64) gval { return gval{n, v} }
	if quick {
		rs = []gval{g("0", 0), g("1", 1), g("c-1", c-1), g("c", c), g("c+1", c+1), g("max-1", refMax-1), g("max", refMax), g("max+1", refMax+1), g("2^64-1", inf)}
		ms = []gval{g("c-1", c-1), g("c", c), g("max", refMax), g("2^64-1", inf)}
	} else {
		rs = []gval{g("0", 0), g("1", 1), g("c-2", c-2), g("c-1", c-1), g("c", c), g("c+1", c+1), g("c+2", c+2),
			g("max-1", refMax-1), g("max", refMax), g("max+1", refMax+1), g("2^64-1", inf)}
		ms = []gval{g("1", 1), g("c-1", c-1), g("c", c), g("c+1", c+1), g("max-1", refMax-1), g("max", refMax), g("max+1", refMax+1), g("2^64-1", inf)}
	}
	us = rs // the user limit ranges over the same points; 0 is "no gas_limit in the memo"
	return
}

// ref is the statement evaluated on one case.
type ref struct {
	L, E, Bound uint64 // committed limit, execution limit, min(remaining, L)
	Charged     uint64 // what this contract uses under limit E
	PastLimit   bool
	CbFails     bool
	RetryAbort  bool
	Outcome     string
}

func reference(b beh, c, r, u, m uint64) ref {
	l := u
	if u == 0 || u > m { // no user limit, or one above the chain maximum: the maximum
		l = m
	}
	e := min(r, l)
	out := ref{L: l, E: e, Bound: e}
	switch {
	case e < c:
		out.PastLimit, out.Charged, out.Outcome = true, e, "oog"
	case b == bOogPanic || b == bOogError:
		out.PastLimit, out.Charged, out.Outcome = true, e, "oog"
	default:
		out.Charged, out.Outcome = c, behNames[b]
	}
	out.CbFails = out.PastLimit || b != bSuccess
	out.RetryAbort = out.PastLimit && e < l // the relayer supplied less than the committed limit
	return out
}

// ---- recording gas meter ------------------------------------------------------------------------

// recMeter is the transaction's gas meter: a real SDK meter that additionally records the charge the callbacks
// middleware books for the callback ("ibc <type> callback") and stops charging after it (see Assume).
type recMeter struct {
	storetypes.GasMeter
	cbCharge  uint64
	cbCharges int
	free      bool
	postFree  uint64
}

func (m *recMeter) ConsumeGas(a storetypes.Gas, d string) {
	if m.free {
		if m.postFree+a < m.postFree {
			m.postFree = inf
		} else {
			m.postFree += a
		}
		return
	}
	if strings.HasPrefix(d, "ibc ") && strings.HasSuffix(d, " callback") {
		m.cbCharge += a
		m.cbCharges++
		m.free = true
	}
	m.GasMeter.ConsumeGas(a, d)
}

// ---- fixture ------------------------------------------------------------------------------------

const (
	sideA = 0
	sideB = 1
)

type flow struct {
	Name   string
	Kind   string // send, ack, timeout, recv, async
	V2     bool
	Side   int
	Refund bool // ack / timeout whose application effect is a refund
	// per user-limit index
	msgs   []sdk.Msg
	pkts1  []channeltypes.Packet
	pkts2  []channeltypesv2.Packet
	pre    []uint64 // gas consumed by the transaction before the callback starts (calibrated)
	preOK  []bool
	cbType callbacktypes.CallbackType
}

type hookObs struct {
	calls          int
	outerRemaining uint64
	outerConsumed  uint64
	execLimit      uint64
	burnt          uint64
	typ            callbacktypes.CallbackType
}

type fixture struct {
	c      *core.C
	coord  *ibctesting.Coordinator
	chains [2]*ibctesting.TestChain
	apps   [2]*cbsimapp.SimApp
	path   *ibctesting.Path

	setup bool
	calib bool // calibration: the contract only records what it sees
	beh   beh
	outer *recMeter
	obs   hookObs

	work       uint64 // explicit gas the contract burns besides its store accesses
	cGas       uint64
	rs, us, ms []gval
	flows      []*flow

	routers   [2][]*porttypes.Router
	routersV2 [2][]*ibcapi.Router
	mws       [2][]*ibccallbacks.IBCMiddleware
	curMax    [2]int

	storeKeys [2][]storetypes.StoreKey
	baseDump  [2]map[string]string

	voucher1, voucher2 string
	escrow1, escrow2   sdk.AccAddress
}

func setupApp() (ibctesting.TestingApp, map[string]json.RawMessage) {
	app := cbsimapp.NewSimApp(log.NewNopLogger(), dbm.NewMemDB(), nil, true, simtestutil.EmptyAppOptions{})
	return app, app.DefaultGenesis()
}

var errContract = errors.New("verif: contract refuses")

// program is the contract: one stateful entry (read + write of the keeper's counter) and a fixed burn.
func (fx *fixture) program(ctx sdk.Context, k *cbsimapp.ContractKeeper) {
	k.IncrementStateEntryCounter(ctx)
	ctx.GasMeter().ConsumeGas(fx.work, "c40 contract work")
}

func (fx *fixture) hook(side int) func(ctx sdk.Context, typ callbacktypes.CallbackType) error {
	k := fx.apps[side].MockContractKeeper
	return func(ctx sdk.Context, typ callbacktypes.CallbackType) error {
		if fx.setup {
			return nil
		}
		fx.obs.calls++
		fx.obs.typ = typ
		if fx.outer != nil {
			fx.obs.outerRemaining = fx.outer.GasRemaining()
			fx.obs.outerConsumed = fx.outer.GasConsumed()
		}
		m := ctx.GasMeter()
		fx.obs.execLimit = m.Limit()
		if fx.calib {
			return nil
		}
		fx.program(ctx, k)
		fx.obs.burnt = m.GasConsumed()
		switch fx.beh {
		case bError:
			return errContract
		case bPanic:
			panic("verif: contract panics")
		case bOogPanic:
			m.ConsumeGas(m.GasRemaining()+1, "c40 contract burns everything")
		case bOogError:
			func() {
				defer func() { _ = recover() }()
				m.ConsumeGas(m.GasRemaining()+1, "c40 contract burns everything")
			}()
			return errContract
		}
		return nil
	}
}

func (fx *fixture) installHooks() {
	for side := 0; side < 2; side++ {
		h := fx.hook(side)
		k := fx.apps[side].MockContractKeeper
		k.IBCSendPacketCallbackFn = func(ctx sdk.Context, _, _ string, _ clienttypes.Height, _ uint64, _ []byte, _, _, _ string) error {
			return h(ctx, callbacktypes.CallbackTypeSendPacket)
		}
		k.IBCOnAcknowledgementPacketCallbackFn = func(ctx sdk.Context, _ channeltypes.Packet, _ []byte, _ sdk.AccAddress, _, _, _ string) error {
			return h(ctx, callbacktypes.CallbackTypeAcknowledgementPacket)
		}
		k.IBCOnTimeoutPacketCallbackFn = func(ctx sdk.Context, _ channeltypes.Packet, _ sdk.AccAddress, _, _, _ string) error {
			return h(ctx, callbacktypes.CallbackTypeTimeoutPacket)
		}
		k.IBCReceivePacketCallbackFn = func(ctx sdk.Context, _ ibcexported.PacketI, _ ibcexported.Acknowledgement, _, _ string) error {
			return h(ctx, callbacktypes.CallbackTypeReceivePacket)
		}
	}
}

func memo(key string, u uint64) string {
	if u == 0 {
		return fmt.Sprintf(`{"%s":{"address":"%s"}}`, key, contractAddr)
	}
	return fmt.Sprintf(`{"%s":{"address":"%s","gas_limit":"%d"}}`, key, contractAddr, u)
}

func must(err error, what string) {
	if err != nil {
		panic(fmt.Sprintf("%s: %v", what, err))
	}
}

func (fx *fixture) addrA() string { return fx.chains[sideA].SenderAccount.GetAddress().String() }
func (fx *fixture) addrB() string { return fx.chains[sideB].SenderAccount.GetAddress().String() }

var (
	successAck1 = channeltypes.NewResultAcknowledgement([]byte{byte(1)})
	farHeight   = clienttypes.NewHeight(1, 1_000_000)
)

func coin() sdk.Coin { return sdk.NewCoin(sdk.DefaultBondDenom, sdkmath.NewInt(amount)) }

func (fx *fixture) transferMsg(receiver string, th clienttypes.Height, m string) *transfertypes.MsgTransfer {
	ep := fx.path.EndpointA
	return transfertypes.NewMsgTransfer(ep.ChannelConfig.PortID, ep.ChannelID, coin(), fx.addrA(), receiver, th, 0, m)
}

func (fx *fixture) payload2(receiver, m string) channeltypesv2.Payload {
	data := transfertypes.NewFungibleTokenPacketData(sdk.DefaultBondDenom, strconv.FormatInt(amount, 10), fx.addrA(), receiver, m)
	return channeltypesv2.NewPayload(transfertypes.PortID, transfertypes.PortID, transfertypes.V1, transfertypes.EncodingJSON, data.GetBytes())
}

// build brings up the chains, puts every needed packet in flight and prepares the relay messages.
func build(c *core.C, work uint64) *fixture {
	fx := &fixture{c: c, setup: true, work: work}
	fx.coord = ibctesting.NewCustomAppCoordinator(c.T, 2, setupApp)
	for i := 0; i < 2; i++ {
		fx.chains[i] = fx.coord.GetChain(ibctesting.GetChainID(i + 1))
		app, ok := fx.chains[i].App.(*cbsimapp.SimApp)
		if !ok {
			panic("not the callbacks test application")
		}
		fx.apps[i] = app
		keys := append([]storetypes.StoreKey{}, app.GetStoreKeys()...)
		keys = append(keys, app.GetMemKey(ibcmock.MemStoreKey))
		sort.Slice(keys, func(a, b int) bool { return keys[a].Name() < keys[b].Name() })
		fx.storeKeys[i] = keys
	}
	fx.installHooks()
	fx.path = ibctesting.NewTransferPath(fx.chains[sideA], fx.chains[sideB])
	fx.path.Setup()
	fx.path.SetupCounterparties()
	epA, epB := fx.path.EndpointA, fx.path.EndpointB
	fx.escrow1 = transfertypes.GetEscrowAddress(epA.ChannelConfig.PortID, epA.ChannelID)
	fx.escrow2 = transfertypes.GetEscrowAddress(transfertypes.PortID, epA.ClientID)
	fx.voucher1 = transfertypes.NewDenom(sdk.DefaultBondDenom, transfertypes.NewHop(epB.ChannelConfig.PortID, epB.ChannelID)).IBCDenom()
	fx.voucher2 = transfertypes.NewDenom(sdk.DefaultBondDenom, transfertypes.NewHop(transfertypes.PortID, epB.ClientID)).IBCDenom()

	// the contract's consumption c: the program on a branch with an unlimited meter
	{
		ctx, _ := fx.chains[sideA].GetContext().CacheContext()
		ctx = ctx.WithGasMeter(storetypes.NewInfiniteGasMeter())
		fx.program(ctx, fx.apps[sideA].MockContractKeeper)
		fx.cGas = ctx.GasMeter().GasConsumed()
	}
	fx.rs, fx.us, fx.ms = lattices(fx.cGas, c.Quick())
	nU := len(fx.us)

	mk := func(name, kind string, v2 bool, side int, refund bool, t callbacktypes.CallbackType) *flow {
		f := &flow{Name: name, Kind: kind, V2: v2, Side: side, Refund: refund, cbType: t,
			msgs: make([]sdk.Msg, nU), pkts1: make([]channeltypes.Packet, nU), pkts2: make([]channeltypesv2.Packet, nU), pre: make([]uint64, nU), preOK: make([]bool, nU)}
		fx.flows = append(fx.flows, f)
		return f
	}
	fSend := mk("send", "send", false, sideA, false, callbacktypes.CallbackTypeSendPacket)
	fAckE := mk("ack(error ack: refund)", "ack", false, sideA, true, callbacktypes.CallbackTypeAcknowledgementPacket)
	fAckS := mk("ack(success ack)", "ack", false, sideA, false, callbacktypes.CallbackTypeAcknowledgementPacket)
	fTime := mk("timeout", "timeout", false, sideA, true, callbacktypes.CallbackTypeTimeoutPacket)
	fRecv := mk("recv", "recv", false, sideB, false, callbacktypes.CallbackTypeReceivePacket)
	fAsyn := mk("async write-ack", "async", false, sideB, false, callbacktypes.CallbackTypeReceivePacket)
	fSend2 := mk("v2 send", "send", true, sideA, false, callbacktypes.CallbackTypeSendPacket)
	fAck2 := mk("v2 ack(error ack: refund)", "ack", true, sideA, true, callbacktypes.CallbackTypeAcknowledgementPacket)
	fTime2 := mk("v2 timeout", "timeout", true, sideA, true, callbacktypes.CallbackTypeTimeoutPacket)
	fRecv2 := mk("v2 recv", "recv", true, sideB, false, callbacktypes.CallbackTypeReceivePacket)

	chA, chB := fx.chains[sideA], fx.chains[sideB]
	timeoutHeight := clienttypes.GetSelfHeight(chB.GetContext())
	timeoutHeight.RevisionHeight++
	now := uint64(chA.GetContext().BlockTime().Unix())
	soon, late := now+3600, now+20*3600

	send1 := func(msg *transfertypes.MsgTransfer) channeltypes.Packet {
		res, err := chA.SendMsgs(msg)
		must(err, "set-up transfer")
		p, err := ibctesting.ParseV1PacketFromEvents(res.Events)
		must(err, "parse packet")
		return p
	}
	acks1 := map[*flow][][]byte{fAckE: make([][]byte, nU), fAckS: make([][]byte, nU)}
	acks2 := make([]channeltypesv2.Acknowledgement, nU)
	for ui, u := range fx.us {
		fSend.msgs[ui] = fx.transferMsg(fx.addrB(), farHeight, memo(callbacktypes.SourceCallbackKey, u.V))
		fAckE.pkts1[ui] = send1(fx.transferMsg("not-an-address", farHeight, memo(callbacktypes.SourceCallbackKey, u.V)))
		fAckS.pkts1[ui] = send1(fx.transferMsg(fx.addrB(), farHeight, memo(callbacktypes.SourceCallbackKey, u.V)))
		fTime.pkts1[ui] = send1(fx.transferMsg(fx.addrB(), timeoutHeight, memo(callbacktypes.SourceCallbackKey, u.V)))
		fRecv.pkts1[ui] = send1(fx.transferMsg(fx.addrB(), farHeight, memo(callbacktypes.DestinationCallbackKey, u.V)))
		fAsyn.pkts1[ui] = fRecv.pkts1[ui]

		fSend2.msgs[ui] = channeltypesv2.NewMsgSendPacket(epA.ClientID, late, fx.addrA(), fx.payload2(fx.addrB(), memo(callbacktypes.SourceCallbackKey, u.V)))
		var err error
		fAck2.pkts2[ui], err = epA.MsgSendPacket(late, fx.payload2("not-an-address", memo(callbacktypes.SourceCallbackKey, u.V)))
		must(err, "set-up v2 send (ack)")
		fTime2.pkts2[ui], err = epA.MsgSendPacket(soon, fx.payload2(fx.addrB(), memo(callbacktypes.SourceCallbackKey, u.V)))
		must(err, "set-up v2 send (timeout)")
		fRecv2.pkts2[ui], err = epA.MsgSendPacket(late, fx.payload2(fx.addrB(), memo(callbacktypes.DestinationCallbackKey, u.V)))
		must(err, "set-up v2 send (recv)")
	}
	for ui := range fx.us {
		for _, f := range []*flow{fAckE, fAckS} {
			must(epB.UpdateClient(), "update client on B")
			res, err := epB.RecvPacketWithResult(f.pkts1[ui])
			must(err, "set-up receive")
			ack, err := ibctesting.ParseAckFromEvents(res.Events)
			must(err, "parse ack")
			acks1[f][ui] = ack
		}
		must(epB.UpdateClient(), "update client on B")
		ack, err := epB.MsgRecvPacketWithAck(fAck2.pkts2[ui])
		must(err, "set-up v2 receive")
		acks2[ui] = ack
	}
	// let the timeouts pass on B, then bring both clients up to date
	fx.coord.IncrementTimeBy(2 * time.Hour)
	fx.coord.CommitBlock(chA, chB)
	fx.coord.CommitBlock(chA, chB)
	must(epA.UpdateClient(), "final update client on A")
	must(epB.UpdateClient(), "final update client on B")
	must(epA.UpdateClient(), "final update client on A")
	hB := chA.GetClientLatestHeight(epA.ClientID) // B as known on A
	hA := chB.GetClientLatestHeight(epB.ClientID) // A as known on B
	proofB := func(key []byte) ([]byte, clienttypes.Height) {
		return chB.QueryProofAtHeight(key, int64(hB.GetRevisionHeight()))
	}
	proofA := func(key []byte) ([]byte, clienttypes.Height) {
		return chA.QueryProofAtHeight(key, int64(hA.GetRevisionHeight()))
	}
	for ui := range fx.us {
		for _, f := range []*flow{fAckE, fAckS} {
			p := f.pkts1[ui]
			proof, ph := proofB(host.PacketAcknowledgementKey(p.DestinationPort, p.DestinationChannel, p.Sequence))
			f.msgs[ui] = channeltypes.NewMsgAcknowledgement(p, acks1[f][ui], proof, ph, fx.addrA())
		}
		p := fTime.pkts1[ui]
		proof, ph := proofB(host.PacketReceiptKey(p.DestinationPort, p.DestinationChannel, p.Sequence))
		fTime.msgs[ui] = channeltypes.NewMsgTimeout(p, 1, proof, ph, fx.addrA())
		p = fRecv.pkts1[ui]
		proof, ph = proofA(host.PacketCommitmentKey(p.SourcePort, p.SourceChannel, p.Sequence))
		fRecv.msgs[ui] = channeltypes.NewMsgRecvPacket(p, proof, ph, fx.addrB())

		p2 := fAck2.pkts2[ui]
		proof, ph = proofB(hostv2.PacketAcknowledgementKey(p2.DestinationClient, p2.Sequence))
		fAck2.msgs[ui] = channeltypesv2.NewMsgAcknowledgement(p2, acks2[ui], proof, ph, fx.addrA())
		p2 = fTime2.pkts2[ui]
		proof, ph = proofB(hostv2.PacketReceiptKey(p2.DestinationClient, p2.Sequence))
		fTime2.msgs[ui] = channeltypesv2.NewMsgTimeout(p2, proof, ph, fx.addrA())
		p2 = fRecv2.pkts2[ui]
		proof, ph = proofA(hostv2.PacketCommitmentKey(p2.SourceClient, p2.Sequence))
		fRecv2.msgs[ui] = channeltypesv2.NewMsgRecvPacket(p2, proof, ph, fx.addrB())
	}

	// one middleware stack per chain maximum
	for side := 0; side < 2; side++ {
		app := fx.apps[side]
		for _, m := range fx.ms {
			mw := ibccallbacks.NewIBCMiddleware(app.MockContractKeeper, m.V)
			sb := porttypes.NewIBCStackBuilder(app.IBCKeeper.ChannelKeeper)
			sb.Base(transfer.NewIBCModule(app.TransferKeeper)).Next(mw)
			r := porttypes.NewRouter()
			r.AddRoute(transfertypes.ModuleName, sb.Build())
			r2 := ibcapi.NewRouter()
			r2.AddRoute(transfertypes.PortID, ibccallbacksv2.NewIBCMiddleware(transferv2.NewIBCModule(app.TransferKeeper), app.IBCKeeper.ChannelKeeperV2, app.MockContractKeeper, app.IBCKeeper.ChannelKeeperV2, m.V))
			fx.routers[side] = append(fx.routers[side], r)
			fx.routersV2[side] = append(fx.routersV2[side], r2)
			fx.mws[side] = append(fx.mws[side], mw)
		}
		fx.curMax[side] = -1
	}
	for side := 0; side < 2; side++ {
		ctx, _ := fx.chains[side].GetContext().CacheContext()
		fx.baseDump[side] = fx.dump(side, ctx)
	}
	fx.setup = false
	return fx
}

func (fx *fixture) selectMax(side, mi int) {
	if fx.curMax[side] == mi {
		return
	}
	app := fx.apps[side]
	app.IBCKeeper.PortKeeper.Router = fx.routers[side][mi]
	app.IBCKeeper.SetRouterV2(fx.routersV2[side][mi])
	app.TransferKeeper.WithICS4Wrapper(fx.mws[side][mi])
	fx.curMax[side] = mi
}

func (fx *fixture) dump(side int, ctx sdk.Context) map[string]string {
	out := map[string]string{}
	ms := ctx.MultiStore()
	for _, k := range fx.storeKeys[side] {
		it := ms.GetKVStore(k).Iterator(nil, nil)
		for ; it.Valid(); it.Next() {
			out[k.Name()+"/"+string(it.Key())] = string(it.Value())
		}
		it.Close()
	}
	return out
}

func diffKeys(a, b map[string]string) []string {
	var out []string
	for k, v := range a {
		if bv, ok := b[k]; !ok || bv != v {
			out = append(out, k)
		}
	}
	for k := range b {
		if _, ok := a[k]; !ok {
			out = append(out, k)
		}
	}
	sort.Strings(out)
	return out
}

// ---- one transaction ----------------------------------------------------------------------------

type txResult struct {
	Class string // OK, ERR, PANIC, OOG
	Text  string
	ctx   sdk.Context
}

// exec runs the flow's message for user index ui under chain maximum mi with the given meter, the way baseapp
// runs a transaction's message (branch, recover, write only on success — the branch is simply dropped here).
func (fx *fixture) exec(f *flow, ui, mi int, meter storetypes.GasMeter) txResult {
	fx.selectMax(f.Side, mi)
	app := fx.apps[f.Side]
	ctx, _ := fx.chains[f.Side].GetContext().CacheContext()
	ctx = ctx.WithGasMeter(meter).WithEventManager(sdk.NewEventManager())
	res := txResult{ctx: ctx}
	func() {
		defer func() {
			if r := recover(); r != nil {
				if oog, ok := r.(storetypes.ErrorOutOfGas); ok {
					res.Class, res.Text = "OOG", oog.Descriptor
					return
				}
				res.Class, res.Text = "PANIC", fmt.Sprint(r)
			}
		}()
		var err error
		if f.Kind == "async" {
			err = fx.mws[f.Side][mi].WriteAcknowledgement(ctx, f.pkts1[ui], successAck1)
		} else {
			h := app.MsgServiceRouter().Handler(f.msgs[ui])
			if h == nil {
				panic("no handler")
			}
			_, err = h(ctx, f.msgs[ui])
		}
		if err != nil {
			res.Class, res.Text = "ERR", err.Error()
			return
		}
		res.Class = "OK"
	}()
	return res
}

func (fx *fixture) calibrate() bool {
	mi := len(fx.ms) - 1
	for _, f := range fx.flows {
		for ui := range fx.us {
			fx.beh, fx.calib = bSuccess, true
			fx.obs = hookObs{}
			m := &recMeter{GasMeter: storetypes.NewInfiniteGasMeter()}
			fx.outer = m
			r := fx.exec(f, ui, mi, m)
			fx.calib = false
			if r.Class != "OK" || fx.obs.calls != 1 || fx.obs.typ != f.cbType || m.cbCharges != 1 || m.cbCharge != 0 {
				fx.c.Broken("calibration of %s (user limit %s) failed: %s %s; contract calls %d (type %s), charges %d/%d",
					f.Name, fx.us[ui].Name, r.Class, r.Text, fx.obs.calls, fx.obs.typ, m.cbCharges, m.cbCharge)
				return false
			}
			f.pre[ui], f.preOK[ui] = fx.obs.outerConsumed, true
		}
		// the contract's consumption inside a real callback equals c (no user limit, largest maximum, unlimited transaction)
		if fx.us[0].V != 0 || fx.ms[mi].V != inf {
			panic("lattice layout changed")
		}
		fx.beh, fx.obs = bSuccess, hookObs{}
		m := &recMeter{GasMeter: storetypes.NewInfiniteGasMeter()}
		fx.outer = m
		if r := fx.exec(f, 0, mi, m); r.Class != "OK" || fx.obs.burnt != fx.cGas || m.cbCharge != fx.cGas {
			fx.c.Broken("contract consumption inside %s is %d (charged %d), measured c=%d (%s %s)", f.Name, fx.obs.burnt, m.cbCharge, fx.cGas, r.Class, r.Text)
			return false
		}
	}
	fx.outer = nil
	return true
}

// ---- observations -------------------------------------------------------------------------------

type lifeObs struct {
	Commitment bool // source: packet commitment present
	Receipt    bool // destination
	Ack        []byte
	Sender     sdkmath.Int
	Escrow     sdkmath.Int
	Receiver   sdkmath.Int
	Counter    uint8
}

func (fx *fixture) observe(f *flow, ui int, ctx sdk.Context) lifeObs {
	ctx = ctx.WithGasMeter(storetypes.NewInfiniteGasMeter())
	app := fx.apps[f.Side]
	o := lifeObs{Sender: sdkmath.ZeroInt(), Escrow: sdkmath.ZeroInt(), Receiver: sdkmath.ZeroInt()}
	o.Counter = app.MockContractKeeper.GetStateEntryCounter(ctx)
	bal := func(a sdk.AccAddress, d string) sdkmath.Int { return app.BankKeeper.GetBalance(ctx, a, d).Amount }
	epA, epB := fx.path.EndpointA, fx.path.EndpointB
	if f.Side == sideA {
		o.Sender = bal(fx.chains[sideA].SenderAccount.GetAddress(), sdk.DefaultBondDenom)
		if f.V2 {
			o.Escrow = bal(fx.escrow2, sdk.DefaultBondDenom)
			seq := f.pkts2[ui].Sequence
			if f.Kind == "send" {
				seq, _ = app.IBCKeeper.ChannelKeeperV2.GetNextSequenceSend(fx.baseCtx(sideA), epA.ClientID)
			}
			o.Commitment = len(app.IBCKeeper.ChannelKeeperV2.GetPacketCommitment(ctx, epA.ClientID, seq)) > 0
		} else {
			o.Escrow = bal(fx.escrow1, sdk.DefaultBondDenom)
			seq := f.pkts1[ui].Sequence
			if f.Kind == "send" {
				seq, _ = app.IBCKeeper.ChannelKeeper.GetNextSequenceSend(fx.baseCtx(sideA), epA.ChannelConfig.PortID, epA.ChannelID)
			}
			o.Commitment = len(app.IBCKeeper.ChannelKeeper.GetPacketCommitment(ctx, epA.ChannelConfig.PortID, epA.ChannelID, seq)) > 0
		}
		return o
	}
	recv := fx.chains[sideB].SenderAccount.GetAddress()
	if f.V2 {
		o.Receiver = bal(recv, fx.voucher2)
		seq := f.pkts2[ui].Sequence
		o.Receipt = app.IBCKeeper.ChannelKeeperV2.HasPacketReceipt(ctx, epB.ClientID, seq)
		o.Ack = app.IBCKeeper.ChannelKeeperV2.GetPacketAcknowledgement(ctx, epB.ClientID, seq)
	} else {
		o.Receiver = bal(recv, fx.voucher1)
		seq := f.pkts1[ui].Sequence
		_, o.Receipt = app.IBCKeeper.ChannelKeeper.GetPacketReceipt(ctx, epB.ChannelConfig.PortID, epB.ChannelID, seq)
		o.Ack, _ = app.IBCKeeper.ChannelKeeper.GetPacketAcknowledgement(ctx, epB.ChannelConfig.PortID, epB.ChannelID, seq)
	}
	return o
}

func (fx *fixture) baseCtx(side int) sdk.Context {
	ctx, _ := fx.chains[side].GetContext().CacheContext()
	return ctx.WithGasMeter(storetypes.NewInfiniteGasMeter())
}

// ---- one case -----------------------------------------------------------------------------------

// Case identifies one evaluation (also the replay artefact).
type Case struct {
	Work uint64 `json:"contract_work"`
	Flow string `json:"flow"`
	Beh  string `json:"behaviour"`
	R    string `json:"remaining"`
	U    string `json:"user_limit"`
	M    string `json:"max"`
}

func (cs Case) key() string {
	return fmt.Sprintf("work=%d/%s/%s/remaining=%s/user=%s/max=%s", cs.Work, cs.Flow, cs.Beh, cs.R, cs.U, cs.M)
}

type sample struct {
	Case      Case   `json:"case"`
	C         uint64 `json:"contract_consumption_c"`
	Commit    uint64 `json:"reference_commit_limit"`
	Exec      uint64 `json:"reference_exec_limit"`
	Reference string `json:"reference"`
	Tx        string `json:"transaction"`
	Charged   uint64 `json:"gas_charged_for_callback"`
	Changed   int    `json:"store_keys_changed"`
}

var (
	successCommit1 = channeltypes.CommitAcknowledgement(successAck1.Acknowledgement())
	errCommit2     = channeltypesv2.CommitAcknowledgement(channeltypesv2.Acknowledgement{AppAcknowledgements: [][]byte{channeltypesv2.ErrorAcknowledgement[:]}})
	successCommit2 = channeltypesv2.CommitAcknowledgement(channeltypesv2.Acknowledgement{AppAcknowledgements: [][]byte{successAck1.Acknowledgement()}})
)

func (fx *fixture) eval(f *flow, b beh, ri, ui, mi int) (ref, *sample) {
	c := fx.c
	cs := Case{fx.work, f.Name, behNames[b], fx.rs[ri].Name, fx.us[ui].Name, fx.ms[mi].Name}
	R, U, M := fx.rs[ri].V, fx.us[ui].V, fx.ms[mi].V
	rf := reference(b, fx.cGas, R, U, M)
	viol := func(oracle, text string) {
		c.Violation(oracle+"/"+cs.key(), fmt.Sprintf("%s (c=%d, commit limit %d, exec limit %d): %s", cs.key(), fx.cGas, rf.L, rf.E, text), cs)
	}
	var inner storetypes.GasMeter
	if R == inf {
		inner = storetypes.NewInfiniteGasMeter()
	} else {
		inner = storetypes.NewGasMeter(f.pre[ui] + R)
	}
	meter := &recMeter{GasMeter: inner}
	fx.beh, fx.outer, fx.obs = b, meter, hookObs{}
	base := fx.observe(f, ui, fx.baseCtx(f.Side))
	tx := fx.exec(f, ui, mi, meter)
	fx.outer = nil

	// harness self-checks: the contract ran once, for the right callback, seeing exactly R remaining gas
	if fx.obs.calls != 1 || fx.obs.typ != f.cbType {
		c.Broken("%s: contract called %d times (type %q); tx %s %s", cs.key(), fx.obs.calls, fx.obs.typ, tx.Class, tx.Text)
		return rf, nil
	}
	if fx.obs.outerRemaining != R || fx.obs.outerConsumed != f.pre[ui] {
		c.Broken("%s: the contract saw %d gas remaining in the transaction (consumed %d), wanted %d (%d)", cs.key(), fx.obs.outerRemaining, fx.obs.outerConsumed, R, f.pre[ui])
		return rf, nil
	}
	smp := &sample{Case: cs, C: fx.cGas, Commit: rf.L, Exec: rf.E, Tx: tx.Class, Charged: meter.cbCharge}
	smp.Reference = fmt.Sprintf("callback %s; retry-abort %v", rf.Outcome, rf.RetryAbort)

	// (1) gas: the callback is charged at most min(remaining, min(user or max, max))
	if meter.cbCharge > rf.Bound {
		viol("gas-bound", fmt.Sprintf("the callback was charged %d gas, more than min(remaining %d, limit %d) = %d (the contract was given the limit %d)", meter.cbCharge, R, rf.L, rf.Bound, fx.obs.execLimit))
	} else if meter.cbCharge != rf.Charged || meter.cbCharges != 1 {
		c.Broken("%s: charged %d (in %d bookings), the reference model of this contract says %d", cs.key(), meter.cbCharge, meter.cbCharges, rf.Charged)
	}

	// (2) transaction result
	wantFail := rf.RetryAbort
	if f.Kind == "send" {
		wantFail = rf.CbFails
	}
	isRetryPanic := tx.Class == "OOG" && strings.Contains(tx.Text, "callback out of gas")
	switch {
	case wantFail && tx.Class == "OK":
		if f.Kind == "send" {
			viol("send-not-rejected", fmt.Sprintf("the send callback fails (%s) but the send transaction succeeded", rf.Outcome))
		} else {
			viol("retry-abort-missing", fmt.Sprintf("the callback ran out of gas with only %d of the committed %d gas available, but the transaction was not aborted", rf.E, rf.L))
		}
	case wantFail && f.Kind != "send" && !isRetryPanic:
		viol("retry-abort-not-out-of-gas", fmt.Sprintf("the transaction must abort with an out-of-gas panic so that it can be retried; it ended %s %q", tx.Class, tx.Text))
	case !wantFail && tx.Class != "OK":
		if f.Kind == "send" {
			viol("send-rejected", fmt.Sprintf("the send callback succeeds but the send transaction failed: %s %q", tx.Class, tx.Text))
		} else {
			viol("lifecycle-blocked", fmt.Sprintf("the callback outcome (%s) must not block the packet life-cycle, but the transaction failed: %s %q", rf.Outcome, tx.Class, tx.Text))
		}
	}
	if tx.Class != "OK" {
		return rf, smp // nothing is committed by a failed transaction
	}

	// (3) effects of a committed transaction
	post := fx.observe(f, ui, tx.ctx)
	changed := diffKeys(fx.baseDump[f.Side], fx.dump(f.Side, tx.ctx))
	smp.Changed = len(changed)
	counterKey := ibcmock.MemStoreKey + "/" + cbsimapp.StatefulCounterKey
	counterChanged := false
	for _, k := range changed {
		if k == counterKey {
			counterChanged = true
		}
	}
	if rf.CbFails {
		if post.Counter != base.Counter || counterChanged {
			viol("contract-state-kept", fmt.Sprintf("the callback failed (%s) but the contract's stateful entry survived (counter %d -> %d)", rf.Outcome, base.Counter, post.Counter))
		}
	} else if post.Counter != base.Counter+1 {
		viol("contract-state-lost", fmt.Sprintf("the callback succeeded but the contract's counter went %d -> %d", base.Counter, post.Counter))
	}
	switch f.Kind {
	case "send":
		if !post.Commitment || !post.Sender.Equal(base.Sender.SubRaw(amount)) || !post.Escrow.Equal(base.Escrow.AddRaw(amount)) {
			viol("send-effect", fmt.Sprintf("after a successful send: commitment %v, sender %s -> %s, escrow %s -> %s", post.Commitment, base.Sender, post.Sender, base.Escrow, post.Escrow))
		}
	case "ack", "timeout":
		if post.Commitment {
			viol("commitment-not-deleted", "the packet commitment is still there after the acknowledgement / timeout was processed")
		}
		want := int64(0)
		if f.Refund {
			want = amount
		}
		if !post.Sender.Equal(base.Sender.AddRaw(want)) || !post.Escrow.Equal(base.Escrow.SubRaw(want)) {
			viol("application-effect", fmt.Sprintf("refund expected %d: sender %s -> %s, escrow %s -> %s", want, base.Sender, post.Sender, base.Escrow, post.Escrow))
		}
	case "recv":
		if !post.Receipt || len(post.Ack) == 0 {
			viol("receive-bookkeeping", fmt.Sprintf("receipt %v, acknowledgement %x after the receive", post.Receipt, post.Ack))
		}
		okCommit, errKnown := successCommit1, []byte(nil)
		if f.V2 {
			okCommit, errKnown = successCommit2, errCommit2
		}
		isSuccessAck := bytes.Equal(post.Ack, okCommit)
		if rf.CbFails {
			if isSuccessAck || (errKnown != nil && !bytes.Equal(post.Ack, errKnown)) {
				viol("failed-destination-callback-not-error-ack", fmt.Sprintf("the destination callback failed (%s) but the acknowledgement written is not the error acknowledgement", rf.Outcome))
			}
			if !f.V2 {
				if a, err := ibctesting.ParseAckFromEvents(tx.ctx.EventManager().ABCIEvents()); err == nil {
					var ack channeltypes.Acknowledgement
					if err := channeltypes.SubModuleCdc.UnmarshalJSON(a, &ack); err != nil || ack.Success() {
						viol("failed-destination-callback-not-error-ack", fmt.Sprintf("acknowledgement %q is not an error acknowledgement", a))
					}
				}
			}
			var extra []string
			for _, k := range changed {
				if !isRecvBookkeeping(f, ui, k) {
					extra = append(extra, strconv.QuoteToASCII(k))
				}
			}
			if len(extra) > 0 || !post.Receiver.Equal(base.Receiver) {
				viol("failed-destination-callback-state-change", fmt.Sprintf("the destination callback failed (%s) but state beyond receipt and acknowledgement changed: %v (receiver %s -> %s)", rf.Outcome, extra, base.Receiver, post.Receiver))
			}
		} else if !isSuccessAck || !post.Receiver.Equal(base.Receiver.AddRaw(amount)) {
			viol("receive-effect", fmt.Sprintf("successful receive + callback: success ack %v, receiver %s -> %s", isSuccessAck, base.Receiver, post.Receiver))
		}
	case "async":
		if !bytes.Equal(post.Ack, successCommit1) {
			viol("async-ack-not-written", "the asynchronous acknowledgement is not in the store")
		}
		if rf.CbFails {
			for _, k := range changed {
				if !isRecvBookkeeping(f, ui, k) {
					viol("failed-async-callback-state-change", fmt.Sprintf("state beyond the acknowledgement changed: %s", strconv.QuoteToASCII(k)))
				}
			}
		}
	}
	return rf, smp
}

func isRecvBookkeeping(f *flow, ui int, key string) bool {
	if f.V2 {
		p := f.pkts2[ui]
		return key == "ibc/"+string(hostv2.PacketReceiptKey(p.DestinationClient, p.Sequence)) || key == "ibc/"+string(hostv2.PacketAcknowledgementKey(p.DestinationClient, p.Sequence))
	}
	p := f.pkts1[ui]
	return key == "ibc/"+string(host.PacketReceiptKey(p.DestinationPort, p.DestinationChannel, p.Sequence)) || key == "ibc/"+string(host.PacketAcknowledgementKey(p.DestinationPort, p.DestinationChannel, p.Sequence))
}

// ---- driver -------------------------------------------------------------------------------------

func idx(l []gval, name string) int {
	for i, g := range l {
		if g.Name == name {
			return i
		}
	}
	return -1
}

type stats struct {
	evals, nontrivial, pruned int
	sampled                   map[string]bool
	done                      bool
}

func names(l []gval) []string {
	var out []string
	for _, g := range l {
		out = append(out, g.Name)
	}
	return out
}

func (fx *fixture) enumerate(st *stats) {
	c := fx.c
	for _, f := range fx.flows {
		for b := beh(0); b < nBeh; b++ {
			for mi := range fx.ms {
				for ui := range fx.us {
					for ri := range fx.rs {
						if c.TimeUp() || c.Violations() > 8 {
							st.done = false
							return
						}
						rf0 := reference(b, fx.cGas, fx.rs[ri].V, fx.us[ui].V, fx.ms[mi].V)
						if (b == bOogPanic || b == bOogError) && rf0.E == inf {
							st.pruned++
							continue
						}
						var rf ref
						var smp *sample
						if p := core.Catch(func() { rf, smp = fx.eval(f, b, ri, ui, mi) }); p != "" {
							c.Broken("panic while evaluating work=%d/%s/%s/%s/%s/%s: %s", fx.work, f.Name, behNames[b], fx.rs[ri].Name, fx.us[ui].Name, fx.ms[mi].Name, p)
							st.done = false
							return
						}
						st.evals++
						if rf.CbFails || fx.us[ui].V > fx.ms[mi].V {
							st.nontrivial++
						}
						class := fmt.Sprintf("%s: callback %s", f.Kind, rf.Outcome)
						if rf.RetryAbort {
							class += ", remaining < committed limit"
						}
						c.Hist("reference_classes", class)
						if smp != nil {
							c.Hist("transaction_results", f.Kind+": "+smp.Tx)
							sk := f.Name + "|" + class
							if !st.sampled[sk] && len(st.sampled) < 12 && (rf.CbFails || len(st.sampled) < 2) {
								st.sampled[sk] = true
								c.Sample(smp)
							}
						}
					}
				}
			}
		}
	}
}

func run(c *core.C) {
	c.Assume("a transaction is one message run the way baseapp runs it (branch of the block state, gas meter with a limit, recover, state kept only on success); ante handlers, signatures and fees are not executed, so 'the whole transaction fails and nothing changes' is observed as the handler panicking out of gas")
	c.Assume("the remaining gas at the start of the callback is set exactly by giving the transaction the limit pre+R, pre being the (calibrated, deterministic) gas the message consumes before the callback; 2^64-1 remaining is an infinite gas meter; gas consumed by the rest of the message AFTER the middleware booked the callback's charge is not charged, so that no transaction fails for running out of gas outside the callback")
	c.Assume("the contract is a harness function in the test application's mock contract keeper: one stateful entry plus a fixed burn (c gas in total), then success / error / panic / out-of-gas panic / out-of-gas swallowed into an error; the chain maximum is varied by routing the transfer port (v1 router, v2 router, transfer keeper's ICS4 wrapper) to callbacks middlewares built by the production constructors with that maximum; no application in this test app acknowledges asynchronously, so the asynchronous path is the v1 middleware's WriteAcknowledgement called as the application would call it")
	c.Assume("pruned as physically meaningless: out-of-gas behaviours under an execution limit of 2^64-1 (a contract cannot burn more than 2^64-1 gas); a chain maximum of 0 is rejected when the middleware is constructed (checked once)")
	c.Set("rule", "a case is non-trivial when the callback does not simply succeed with ample gas: the reference says the callback fails (error, panic, out of gas under the execution limit), or the user limit exceeds the chain maximum")
	c.Set("reference_max", refMax)
	c.Set("behaviours", behNames)

	// contracts: c well below max (both tiers); thorough adds a cheap contract and one that needs more than max
	works := core.Pick(c, []uint64{50_000}, []uint64{50_000, 0, 2_000_000})
	var replay *Case
	if c.Replay != "" {
		replay = &Case{}
		if err := c.LoadReplay(replay); err != nil {
			c.Broken("cannot load replay: %v", err)
			return
		}
		works = []uint64{replay.Work}
	}
	st := &stats{sampled: map[string]bool{}, done: true}
	var cs []uint64
	for wi, work := range works {
		var fx *fixture
		if p := core.Catch(func() { fx = build(c, work) }); p != "" {
			c.Broken("cannot build the callbacks fixture: %s", p)
			return
		}
		if !fx.calibrate() {
			return
		}
		cs = append(cs, fx.cGas)
		if wi == 0 {
			c.Set("lattice_remaining", names(fx.rs))
			c.Set("lattice_user_limit", names(fx.us))
			c.Set("lattice_max", names(fx.ms))
			var fnames []string
			for _, f := range fx.flows {
				fnames = append(fnames, f.Name)
			}
			c.Set("callback_flows", fnames)
			// a chain maximum of 0 is refused at construction (v1 and v2)
			p1 := core.Catch(func() { ibccallbacks.NewIBCMiddleware(fx.apps[0].MockContractKeeper, 0) })
			p2 := core.Catch(func() {
				ibccallbacksv2.NewIBCMiddleware(transferv2.NewIBCModule(fx.apps[0].TransferKeeper), fx.apps[0].IBCKeeper.ChannelKeeperV2, fx.apps[0].MockContractKeeper, fx.apps[0].IBCKeeper.ChannelKeeperV2, 0)
			})
			if p1 == "" || p2 == "" {
				c.Violation("max-zero-accepted", "a callbacks middleware with maxCallbackGas = 0 can be constructed (every callback would then run with a zero limit)", nil)
			}
		}
		if replay != nil {
			var f *flow
			for _, x := range fx.flows {
				if x.Name == replay.Flow {
					f = x
				}
			}
			b := -1
			for i, n := range behNames {
				if n == replay.Beh {
					b = i
				}
			}
			ri, ui, mi := idx(fx.rs, replay.R), idx(fx.us, replay.U), idx(fx.ms, replay.M)
			if f == nil || b < 0 || ri < 0 || ui < 0 || mi < 0 {
				c.Broken("replay case %+v is not in this tier's lattice", *replay)
				return
			}
			_, smp := fx.eval(f, beh(b), ri, ui, mi)
			bz, _ := json.Marshal(smp)
			fmt.Printf("replay %s -> %s\n", replay.key(), bz)
			c.Set("evaluations", 1)
			c.Set("distinct_nontrivial", 1)
			c.Sample(smp)
			return
		}
		fx.enumerate(st)
		if !st.done {
			break
		}
	}
	c.Set("contract_consumptions_c", cs)
	c.Set("evaluations", st.evals)
	c.Set("distinct_nontrivial", st.nontrivial)
	c.Set("pruned_meaningless", st.pruned)
	if !st.done {
		c.Set("exhaustive", false)
	}
}
