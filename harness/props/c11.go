package props

import (
	"fmt"

	channeltypes "github.com/cosmos/ibc-go/v11/modules/core/04-channel/types"
	channeltypesv2 "github.com/cosmos/ibc-go/v11/modules/core/04-channel/v2/types"

	"verif/harness/core"
	"verif/harness/ksim"
)

// C11: each received packet gets at most one immutable acknowledgement (sync or async path).
func init() { core.Register("C11", "model_checking", runC11) }

func c11Scenario(routes []int, nPkts, commits int, kinds ...string) *PL {
	sc := &PL{Routes: routes, MaxSend: nPkts, MaxCommits: commits, Stale: false, Acks: true, AsyncAck: true, DataKinds: kinds, CommitOn: []int{0, 1}}
	sc.StepFn = func(s *PL, pre *ksim.World, op ksim.Op, r ksim.Result, post *ksim.World) *ksim.Fail {
		kb := pre.W.Chains[1].App.IBCKeeper
		if r.Class == ksim.OK || r.Class == ksim.NOOP {
			// a committed transaction announces at most one acknowledgement per packet
			seen := map[string]int{}
			for _, ev := range r.Events {
				if ev.Type != channeltypes.EventTypeWriteAck && ev.Type != channeltypesv2.EventTypeWriteAck {
					continue
				}
				id := ev.Type
				for _, a := range ev.Attributes {
					switch a.Key {
					case channeltypes.AttributeKeyDstChannel, channeltypes.AttributeKeySequence, channeltypesv2.AttributeKeyDstClient:
						id += "|" + a.Key + "=" + a.Value
					}
				}
				if seen[id]++; seen[id] > 1 {
					return &ksim.Fail{Key: "two-acks-written-in-one-transaction", Text: fmt.Sprintf("%s committed and emitted %d write_acknowledgement events for %s", op, seen[id], id)}
				}
			}
		}
		for i, p := range ext(pre).Pkts {
			before, after := s.ackCommitment(pre, p), s.ackCommitment(post, p)
			if before != "" && after != before {
				return &ksim.Fail{Key: "ack-changed/" + routeNames[p.Route], Text: fmt.Sprintf("%s changed or removed the stored acknowledgement of %s/%d", op, p.destID(), p.Seq)}
			}
			if op.K == "wack" && op.A[0] == i {
				if before != "" && r.Class == ksim.OK {
					return &ksim.Fail{Key: "second-ack-accepted/" + routeNames[p.Route], Text: fmt.Sprintf("%s succeeded although %s/%d already has an acknowledgement", op, p.destID(), p.Seq)}
				}
				if p.isV2() && r.Class == ksim.OK {
					if !kb.ChannelKeeperV2.HasPacketReceipt(pre.CS[1].Ctx, p.V2.DestinationClient, p.Seq) {
						return &ksim.Fail{Key: "v2-ack-without-receipt", Text: fmt.Sprintf("%s wrote an acknowledgement for %s/%d which has no receipt", op, p.destID(), p.Seq)}
					}
				}
			}
		}
		return nil
	}
	sc.InvFn = func(s *PL, w *ksim.World) *ksim.Fail {
		kb := w.W.Chains[1].App.IBCKeeper.ChannelKeeperV2
		ctx := w.CS[1].Ctx
		for _, p := range ext(w).Pkts {
			if !p.isV2() {
				continue
			}
			hasReceipt := kb.HasPacketReceipt(ctx, p.V2.DestinationClient, p.Seq)
			hasAck := kb.HasPacketAcknowledgement(ctx, p.V2.DestinationClient, p.Seq)
			_, hasAsync := kb.GetAsyncPacket(ctx, p.V2.DestinationClient, p.Seq)
			if hasAck && !hasReceipt {
				return &ksim.Fail{Key: "v2-ack-without-receipt-state", Text: fmt.Sprintf("%s/%d has an acknowledgement but no receipt", p.destID(), p.Seq)}
			}
			if p.Data == string(dataFor("async")) {
				if hasReceipt && !hasAck && !hasAsync {
					return &ksim.Fail{Key: "async-packet-lost", Text: fmt.Sprintf("async packet %s/%d was received, has no acknowledgement yet, but is not retrievable", p.destID(), p.Seq)}
				}
				if hasAck && hasAsync {
					return &ksim.Fail{Key: "async-packet-not-removed", Text: fmt.Sprintf("async packet %s/%d is still stored after its acknowledgement was written", p.destID(), p.Seq)}
				}
			}
		}
		return nil
	}
	return sc
}

func runC11(c *core.C) {
	d := core.Pick(c, 0, 2)
	parts := []ksim.Part{
		{Name: "macro/v1-unordered", Sc: macro(c11Scenario([]int{rV1U}, 2, 3, "async", "ok")), Cfg: ksim.Config{MaxDepth: 7 + d}, Share: 0.2},
		{Name: "macro/v1-ordered", Sc: macro(c11Scenario([]int{rV1O}, 2, 3, "async", "ok")), Cfg: ksim.Config{MaxDepth: 7 + d}, Share: 0.25},
		{Name: "macro/v2-client", Sc: macro(c11Scenario([]int{rV2C}, 2, 3, "async", "ok")), Cfg: ksim.Config{MaxDepth: 8 + d}, Share: 0.33},
		{Name: "macro/v2-alias+v1", Sc: macro(c11Scenario([]int{rV2A, rV1U}, 1, 3, "async", "ok")), Cfg: ksim.Config{MaxDepth: 7 + d}, Share: 0.5},
		{Name: "micro/v2-client", Sc: c11Scenario([]int{rV2C}, 1, 2, "async"), Cfg: ksim.Config{MaxDepth: 8 + d}, Share: 0.6},
		// v1 applications that write the acknowledgement themselves while still inside the receive callback
		{Name: "macro/v1-app-writes-inside-recv", Sc: macro(c11Scenario([]int{rV1U, rV1O}, 1, 3, "wok", "wasync", "wfail")), Cfg: ksim.Config{MaxDepth: 7 + d}},
	}
	ksim.RunParts(c, parts, [][]ksim.Op{
		{{K: "send", A: []int{3, 0, 0}}, {K: "wack", A: []int{0, 0}}, {K: "commit", A: []int{0}}, {K: "update", A: []int{1, 13}}, {K: "recv", A: []int{0, 13}}, {K: "wack", A: []int{0, 0}}, {K: "wack", A: []int{0, 1}}},
	})
	c.Set("alphabet", "send(async|sync) | commit | update | recv | wack(packet, ack in {a1,a2}) = application writes an acknowledgement through the asynchronous path (also before the receive, also repeatedly) | v1 applications that write the acknowledgement inside the receive callback and answer success / nothing / failure | ack relay")
	c.Assume("counterparty consensus, storage commit and validator signing are played by the harness; one message per transaction")
}
