// Package c30 checks C30: ICS-20 conserves tokens across chains. It runs the shared token-world
// scenario (props/tokenworld) with only the conservation oracle armed.
package c30

import (
	"verif/harness/core"
	"verif/harness/props/tokenworld"
)

func init() { core.Register("C30", "model_checking", run) }

func run(c *core.C) {
	tokenworld.Run(c, tokenworld.Arm{C30: true})
	c.Set("oracle", "every state: for every chain X, path p (channel incl. its v2 alias | client pair) and denomination t known on X: bank balance of escrow_X(p) in t == bank supply on the counterparty of the voucher transfer/<p>/<t> + amounts sent X->Y over p and neither credited nor refunded + vouchers burnt on Y for the way back and neither released nor re-minted; supply of every native denomination on its home chain equals its value at the root; holdings of a native denomination and all its vouchers over all non-escrow tracked accounts of all chains plus in-flight amounts are constant; no tracked account holds, and no chain has supply of, a voucher the reference did not see acknowledged")
}
