package props

import (
	"fmt"
	"sort"

	channeltypes "github.com/cosmos/ibc-go/v11/modules/core/04-channel/types"
	host "github.com/cosmos/ibc-go/v11/modules/core/24-host"
	ibcmock "github.com/cosmos/ibc-go/v11/testing/mock"

	"verif/harness/core"
	"verif/harness/ksim"
)

// C12: channel handshake state machine and end-to-end agreement.
func init() { core.Register("C12", "model_checking", runC12) }

type hsEnd struct {
	Chain int
	ID    string
	Last  channeltypes.State // last observed state (history variable)
}

type hsExt struct {
	Ends    []hsEnd
	Commits [2]int
	Bad     string // first illegal state transition observed (history oracle)
}

func (e *hsExt) Clone() ksim.Ext {
	return &hsExt{Ends: append([]hsEnd{}, e.Ends...), Commits: e.Commits, Bad: e.Bad}
}

func (e *hsExt) KeyBytes() []byte {
	out := []byte{byte(e.Commits[0]), byte(e.Commits[1])}
	for _, x := range e.Ends {
		out = append(out, byte(x.Chain), byte(x.Last))
		out = append(out, x.ID...)
	}
	return append(out, e.Bad...)
}

// HS is the channel handshake scenario over one OPEN connection between chains 0 and 1.
type HS struct {
	ksim.Base
	MaxEnds    int // channel ends per chain
	MaxCommits int
	Stale      bool
	// DupTry narrows the alphabet to one honest INIT on chain 0 and up to two honest TRYs on chain 1 (two relayers
	// answering the same INIT) with all ACK / CONFIRM / close variants; channel ids are asymmetric (an untracked
	// dangling INIT on chain 1 takes channel-0 there).
	DupTry bool
	link   *ksim.Link
}

func (s *HS) Chains() int { return 2 }

func (s *HS) Init(wk *ksim.Worker) *ksim.World {
	wk.InstallMockObservers()
	w := wk.Root()
	w.Ext = &hsExt{}
	l := w.SetupClients(0, 1)
	w.SetupConnection(l, 0)
	{
		// asymmetric identifiers in every part: an untracked dangling INIT takes channel-0 on chain 1
		ksim.MustOK("dangling chan init", w.Tx(1, channeltypes.NewMsgChannelOpenInit("mock", ibcmock.Version, channeltypes.UNORDERED, []string{l.ConnB}, "mock", ksim.Signer)))
	}
	w.Sync(1, l.ClientB, 0)
	w.Sync(0, l.ClientA, 1)
	plInitMu.Lock()
	s.link = l
	plInitMu.Unlock()
	return w
}

func (s *HS) conn(chain int) string {
	if chain == 0 {
		return s.link.ConnA
	}
	return s.link.ConnB
}

func (s *HS) client(chain int) string {
	if chain == 0 {
		return s.link.ClientA
	}
	return s.link.ClientB
}

func (s *HS) channel(w *ksim.World, chain int, id string) (channeltypes.Channel, bool) {
	return w.W.Chains[chain].App.IBCKeeper.ChannelKeeper.GetChannel(w.CS[chain].Ctx, "mock", id)
}

func (s *HS) ends(w *ksim.World, chain int) []hsEnd {
	var out []hsEnd
	for _, e := range w.Ext.(*hsExt).Ends {
		if e.Chain == chain {
			out = append(out, e)
		}
	}
	return out
}

func (s *HS) heights(w *ksim.World, dst int) []int {
	hs := w.ConsensusHeights(dst, s.client(dst))
	out := []int{int(hs[len(hs)-1].RevisionHeight)}
	if s.Stale && len(hs) > 1 {
		out = append(out, int(hs[len(hs)-2].RevisionHeight))
	}
	return out
}

var hsOrders = []channeltypes.Order{channeltypes.UNORDERED, channeltypes.ORDERED}

// the empty version (index 2) passes ValidateBasic and must be rejected by the proof unless the counterparty end
// really holds it
var hsVersions = []string{ibcmock.Version, "other-version", ""}

func (s *HS) Ops(w *ksim.World) []ksim.Op {
	e := w.Ext.(*hsExt)
	var ops []ksim.Op
	for ch := 0; ch < 2; ch++ {
		mine, theirs := s.ends(w, ch), s.ends(w, 1-ch)
		if s.DupTry {
			if ch == 0 && len(mine) < 1 {
				ops = append(ops, ksim.Op{K: "init", A: []int{0, 0}}, ksim.Op{K: "init", A: []int{0, 1}})
			}
			if ch == 1 && len(mine) < 2 {
				hs := s.heights(w, ch)
				for ti, t := range theirs {
					if c, ok := s.channel(w, 0, t.ID); ok {
						oi := 0
						if c.Ordering == channeltypes.ORDERED {
							oi = 1
						}
						ops = append(ops, ksim.Op{K: "try", A: []int{ch, ti, oi, 0, hs[0]}})
					}
				}
			}
		} else if len(mine) < s.MaxEnds {
			for oi := range hsOrders {
				ops = append(ops, ksim.Op{K: "init", A: []int{ch, oi}})
			}
			for ti := range theirs {
				for _, ph := range s.heights(w, ch) {
					// honest parameters plus each wrong-but-plausible one: (order idx, version idx) variants
					for oi := range hsOrders {
						for vi := range hsVersions {
							ops = append(ops, ksim.Op{K: "try", A: []int{ch, ti, oi, vi, ph}})
						}
					}
				}
			}
		}
		for mi := range mine {
			for ti := range theirs {
				for _, ph := range s.heights(w, ch) {
					ops = append(ops, ksim.Op{K: "ack", A: []int{ch, mi, ti, 0, ph}}, ksim.Op{K: "ack", A: []int{ch, mi, ti, 1, ph}}, ksim.Op{K: "ack", A: []int{ch, mi, ti, 2, ph}})
				}
			}
			for _, ph := range s.heights(w, ch) {
				ops = append(ops, ksim.Op{K: "confirm", A: []int{ch, mi, ph}}, ksim.Op{K: "closeconfirm", A: []int{ch, mi, ph}})
			}
			ops = append(ops, ksim.Op{K: "closeinit", A: []int{ch, mi}})
		}
		if e.Commits[ch] < s.MaxCommits {
			ops = append(ops, ksim.Op{K: "sync", A: []int{ch}})
		}
	}
	return ops
}

func (s *HS) Apply(w *ksim.World, op ksim.Op) ksim.Result {
	// an OPEN end may only still become CLOSED and a CLOSED end is final: nothing else of their stored value may change
	settled := map[int]string{}
	for i, end := range w.Ext.(*hsExt).Ends {
		if c, found := s.channel(w, end.Chain, end.ID); found && (c.State == channeltypes.OPEN || c.State == channeltypes.CLOSED) {
			c.State = channeltypes.UNINITIALIZED
			bz, _ := c.Marshal()
			settled[i] = string(bz)
		}
	}
	r := s.apply(w, op)
	for i, end := range w.Ext.(*hsExt).Ends {
		if was, ok := settled[i]; ok {
			c, found := s.channel(w, end.Chain, end.ID)
			c.State = channeltypes.UNINITIALIZED
			bz, _ := c.Marshal()
			if e := w.Ext.(*hsExt); (!found || string(bz) != was) && e.Bad == "" {
				e.Bad = "OPEN-or-CLOSED->rewritten"
			}
		}
	}
	// history oracle: every end moves only along INIT->OPEN, TRYOPEN->OPEN, non-CLOSED->CLOSED
	e := w.Ext.(*hsExt)
	for i := range e.Ends {
		ch, found := s.channel(w, e.Ends[i].Chain, e.Ends[i].ID)
		cur := channeltypes.UNINITIALIZED
		if found {
			cur = ch.State
		}
		last := e.Ends[i].Last
		if cur != last {
			legal := (last == channeltypes.INIT && cur == channeltypes.OPEN) || (last == channeltypes.TRYOPEN && cur == channeltypes.OPEN) ||
				(cur == channeltypes.CLOSED && last != channeltypes.CLOSED && last != channeltypes.UNINITIALIZED)
			if !legal && e.Bad == "" {
				e.Bad = fmt.Sprintf("%s->%s", last, cur)
			}
			e.Ends[i].Last = cur
		}
	}
	return r
}

func (s *HS) apply(w *ksim.World, op ksim.Op) ksim.Result {
	e := w.Ext.(*hsExt)
	ch := op.A[0]
	other := 1 - ch
	proofOf := func(ph int, chanID string) ([]byte, bool) {
		return w.ProofAt(other, int64(ph), "ibc", host.ChannelKey("mock", chanID))
	}
	switch op.K {
	case "sync":
		w.Commit(ch, ksim.BlockStep)
		e.Commits[ch]++
		if r := w.UpdateLatest(other, s.client(other), ch); r.Class != ksim.OK {
			return r
		}
		return ksim.Result{Class: ksim.OK}
	case "init":
		r := w.Tx(ch, channeltypes.NewMsgChannelOpenInit("mock", ibcmock.Version, hsOrders[op.A[1]], []string{s.conn(ch)}, "mock", ksim.Signer))
		if r.Class == ksim.OK {
			var resp channeltypes.MsgChannelOpenInitResponse
			if err := resp.Unmarshal(r.Resp); err != nil {
				panic(err)
			}
			e.Ends = append(e.Ends, hsEnd{Chain: ch, ID: resp.ChannelId, Last: channeltypes.INIT})
		}
		return r
	case "try":
		cp := s.ends(w, other)[op.A[1]]
		proof, ok := proofOf(op.A[4], cp.ID)
		if !ok {
			return ksim.Result{Class: ksim.ERR, Code: "harness/no-proof"}
		}
		v := hsVersions[op.A[3]]
		r := w.Tx(ch, channeltypes.NewMsgChannelOpenTry("mock", v, hsOrders[op.A[2]], []string{s.conn(ch)}, "mock", cp.ID, v, proof, w.Height(other, int64(op.A[4])), ksim.Signer))
		if r.Class == ksim.OK {
			var resp channeltypes.MsgChannelOpenTryResponse
			if err := resp.Unmarshal(r.Resp); err != nil {
				panic(err)
			}
			e.Ends = append(e.Ends, hsEnd{Chain: ch, ID: resp.ChannelId, Last: channeltypes.TRYOPEN})
		}
		return r
	case "ack":
		mine, cp := s.ends(w, ch)[op.A[1]], s.ends(w, other)[op.A[2]]
		proof, ok := proofOf(op.A[4], cp.ID)
		if !ok {
			return ksim.Result{Class: ksim.ERR, Code: "harness/no-proof"}
		}
		return w.Tx(ch, channeltypes.NewMsgChannelOpenAck("mock", mine.ID, cp.ID, hsVersions[op.A[3]], proof, w.Height(other, int64(op.A[4])), ksim.Signer))
	case "confirm", "closeconfirm":
		mine := s.ends(w, ch)[op.A[1]]
		cur, found := s.channel(w, ch, mine.ID)
		if !found || cur.Counterparty.ChannelId == "" {
			return ksim.Result{Class: ksim.ERR, Code: "harness/no-counterparty"}
		}
		proof, ok := proofOf(op.A[2], cur.Counterparty.ChannelId)
		if !ok {
			return ksim.Result{Class: ksim.ERR, Code: "harness/no-proof"}
		}
		if op.K == "confirm" {
			return w.Tx(ch, channeltypes.NewMsgChannelOpenConfirm("mock", mine.ID, proof, w.Height(other, int64(op.A[2])), ksim.Signer))
		}
		return w.Tx(ch, channeltypes.NewMsgChannelCloseConfirm("mock", mine.ID, proof, w.Height(other, int64(op.A[2])), ksim.Signer))
	case "closeinit":
		mine := s.ends(w, ch)[op.A[1]]
		return w.Tx(ch, channeltypes.NewMsgChannelCloseInit("mock", mine.ID, ksim.Signer))
	}
	panic("unknown op " + op.K)
}

// provenEnd decodes the counterparty channel end from the harness's own record of the other chain.
func (s *HS) provenEnd(w *ksim.World, other int, ph int, chanID string) (channeltypes.Channel, bool) {
	snap := w.SnapAt(other, int64(ph))
	if snap == nil {
		return channeltypes.Channel{}, false
	}
	bz := snap.Get("ibc", host.ChannelKey("mock", chanID))
	if bz == nil {
		return channeltypes.Channel{}, false
	}
	var ch channeltypes.Channel
	if err := ch.Unmarshal(bz); err != nil {
		return channeltypes.Channel{}, false
	}
	return ch, true
}

func (s *HS) Step(pre *ksim.World, op ksim.Op, r ksim.Result, post *ksim.World) *ksim.Fail {
	if r.Class != ksim.OK {
		return nil
	}
	switch op.K {
	case "try", "ack", "confirm", "closeconfirm":
	default:
		return nil
	}
	ch := op.A[0]
	other := 1 - ch
	switch op.K {
	case "try":
		cp := s.ends(pre, other)[op.A[1]]
		proven, ok := s.provenEnd(pre, other, op.A[4], cp.ID)
		mineEnds := s.ends(post, ch)
		mine, _ := s.channel(post, ch, mineEnds[len(mineEnds)-1].ID)
		if !ok || proven.State != channeltypes.INIT || proven.Ordering != mine.Ordering || proven.Counterparty.PortId != "mock" ||
			len(proven.ConnectionHops) != 1 || proven.ConnectionHops[0] != s.conn(other) || proven.Version != hsVersions[op.A[3]] {
			return &ksim.Fail{Key: "try-without-matching-init", Text: fmt.Sprintf("%s created a TRYOPEN end (%+v) but the proven counterparty end is %+v (found=%v)", op, mine, proven, ok)}
		}
	case "ack":
		mineID, cp := s.ends(pre, ch)[op.A[1]].ID, s.ends(pre, other)[op.A[2]]
		proven, ok := s.provenEnd(pre, other, op.A[4], cp.ID)
		mine, _ := s.channel(post, ch, mineID)
		if !ok || proven.State != channeltypes.TRYOPEN || proven.Ordering != mine.Ordering || proven.Counterparty.ChannelId != mineID || proven.Counterparty.PortId != "mock" ||
			len(proven.ConnectionHops) != 1 || proven.ConnectionHops[0] != s.conn(other) || proven.Version != mine.Version {
			return &ksim.Fail{Key: "open-ack-without-matching-try", Text: fmt.Sprintf("%s opened end %s (%+v) but the proven counterparty end is %+v (found=%v)", op, mineID, mine, proven, ok)}
		}
	case "confirm":
		mineID := s.ends(pre, ch)[op.A[1]].ID
		mine, _ := s.channel(post, ch, mineID)
		proven, ok := s.provenEnd(pre, other, op.A[2], mine.Counterparty.ChannelId)
		if !ok || proven.State != channeltypes.OPEN || proven.Ordering != mine.Ordering || proven.Counterparty.ChannelId != mineID || proven.Version != mine.Version {
			return &ksim.Fail{Key: "open-confirm-without-matching-open", Text: fmt.Sprintf("%s opened end %s (%+v) but the proven counterparty end is %+v (found=%v)", op, mineID, mine, proven, ok)}
		}
	case "closeconfirm":
		mineID := s.ends(pre, ch)[op.A[1]].ID
		mine, _ := s.channel(post, ch, mineID)
		proven, ok := s.provenEnd(pre, other, op.A[2], mine.Counterparty.ChannelId)
		if !ok || proven.State != channeltypes.CLOSED {
			return &ksim.Fail{Key: "close-confirm-without-closed-counterparty", Text: fmt.Sprintf("%s closed end %s but the proven counterparty end is %+v (found=%v)", op, mineID, proven, ok)}
		}
	}
	return nil
}

func (s *HS) Invariant(w *ksim.World) *ksim.Fail {
	e := w.Ext.(*hsExt)
	if e.Bad != "" {
		return &ksim.Fail{Key: "illegal-state-transition/" + e.Bad, Text: "a channel end moved " + e.Bad}
	}
	// whenever two ends that name each other are both OPEN they agree
	for _, a := range s.ends(w, 0) {
		ca, ok := s.channel(w, 0, a.ID)
		if !ok || ca.State != channeltypes.OPEN {
			continue
		}
		for _, b := range s.ends(w, 1) {
			cb, ok := s.channel(w, 1, b.ID)
			if !ok || cb.State != channeltypes.OPEN {
				continue
			}
			if ca.Counterparty.ChannelId == b.ID || cb.Counterparty.ChannelId == a.ID {
				if ca.Counterparty.ChannelId != b.ID || cb.Counterparty.ChannelId != a.ID || ca.Ordering != cb.Ordering || ca.Version != cb.Version ||
					ca.Counterparty.PortId != "mock" || cb.Counterparty.PortId != "mock" {
					return &ksim.Fail{Key: "open-ends-disagree", Text: fmt.Sprintf("OPEN ends %s (%+v) and %s (%+v) name each other but disagree", a.ID, ca, b.ID, cb)}
				}
			}
		}
	}
	// an OPEN end's counterparty must be unique: no two OPEN ends on one chain point at the same counterparty end
	for chn := 0; chn < 2; chn++ {
		seen := map[string]string{}
		ids := []string{}
		for _, x := range s.ends(w, chn) {
			ids = append(ids, x.ID)
		}
		sort.Strings(ids)
		for _, id := range ids {
			c, ok := s.channel(w, chn, id)
			if ok && c.State == channeltypes.OPEN {
				if prev, dup := seen[c.Counterparty.ChannelId]; dup {
					return &ksim.Fail{Key: "two-open-ends-one-counterparty", Text: fmt.Sprintf("ends %s and %s on chain %d are both OPEN with counterparty %s", prev, id, chn, c.Counterparty.ChannelId)}
				}
				seen[c.Counterparty.ChannelId] = id
			}
		}
	}
	return nil
}

func runC12(c *core.C) {
	d := core.Pick(c, 0, 1)
	parts := []ksim.Part{
		{Name: "1-end-per-chain/stale-proofs", Sc: &HS{MaxEnds: 1, MaxCommits: 3, Stale: true}, Cfg: ksim.Config{MaxDepth: 8 + d}, Share: 0.4},
		{Name: "2-ends-per-chain/crossing-inits", Sc: &HS{MaxEnds: 2, MaxCommits: 2}, Cfg: ksim.Config{MaxDepth: 6 + d}, Share: 0.7},
		{Name: "one-init/two-trys/asymmetric-ids", Sc: &HS{MaxEnds: 2, MaxCommits: 3, DupTry: true}, Cfg: ksim.Config{MaxDepth: 8 + d}},
	}
	ksim.RunParts(c, parts, [][]ksim.Op{
		{{K: "init", A: []int{0, 0}}, {K: "sync", A: []int{0}}, {K: "try", A: []int{1, 0, 0, 0, 8}}, {K: "sync", A: []int{1}}, {K: "ack", A: []int{0, 0, 0, 0, 8}}, {K: "sync", A: []int{0}}, {K: "confirm", A: []int{1, 0, 9}}},
	})
	c.Set("alphabet", "init(chain, ordering) on either chain (crossing INITs) | try(chain, any counterparty end, ordering x version incl. wrong ones, newest or previous consensus height) | ack(chain, own end, any counterparty end, version in {right, wrong, empty}, height) | confirm | close-init | close-confirm | sync(chain); every message stays enabled (duplicates, out-of-order)")
	c.Assume("proof targets are judged against the harness's own record of the counterparty chain at the proof height; the application is the repository's mock module")
}
