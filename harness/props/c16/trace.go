package c16

import (
	"fmt"
	"strings"

	"github.com/cosmos/gogoproto/proto"

	"github.com/cosmos/cosmos-sdk/store/v2/cachekv"
	"github.com/cosmos/cosmos-sdk/store/v2/cachemulti"
	storetypes "github.com/cosmos/cosmos-sdk/store/v2/types"
	sdk "github.com/cosmos/cosmos-sdk/types"

	clienttypes "github.com/cosmos/ibc-go/v11/modules/core/02-client/types"
	clientv2types "github.com/cosmos/ibc-go/v11/modules/core/02-client/v2/types"
	hostv2 "github.com/cosmos/ibc-go/v11/modules/core/24-host/v2"
	ibctm "github.com/cosmos/ibc-go/v11/modules/light-clients/07-tendermint"

	"verif/harness/core"
	"verif/harness/ksim"
)

// ---- write tracing multistore ----------------------------------------------------------------------

type traceEntry struct {
	store string
	key   string
	del   bool
}

type traceKV struct {
	storetypes.KVStore
	name string
	log  *[]traceEntry
}

func (t traceKV) Set(k, v []byte) {
	*t.log = append(*t.log, traceEntry{t.name, string(k), false})
	t.KVStore.Set(k, v)
}

func (t traceKV) Delete(k []byte) {
	*t.log = append(*t.log, traceEntry{t.name, string(k), true})
	t.KVStore.Delete(k)
}

func (t traceKV) CacheWrap() storetypes.CacheWrap { return cachekv.NewStore(t) }

// traceMS records every Set/Delete that reaches the transaction's multistore, including those
// flushed from nested cache contexts.
type traceMS struct {
	storetypes.MultiStore
	log *[]traceEntry
}

func (t traceMS) GetKVStore(k storetypes.StoreKey) storetypes.KVStore {
	return traceKV{t.MultiStore.GetKVStore(k), k.Name(), t.log}
}
func (t traceMS) GetStore(k storetypes.StoreKey) storetypes.Store { return t.GetKVStore(k) }
func (t traceMS) CacheMultiStore() storetypes.CacheMultiStore {
	return cachemulti.NewFromParent(func(k storetypes.StoreKey) storetypes.CacheWrapper { return t.GetKVStore(k).(storetypes.CacheWrapper) })
}
func (t traceMS) CacheWrap() storetypes.CacheWrap { return t.CacheMultiStore().(storetypes.CacheWrap) }

// ---- histories -------------------------------------------------------------------------------------

const (
	tCreate = iota
	tUpdateT
	tUpdateS
	tMisbehaveT
	tRecoverT // subject T, substitute S
	tRegisterT
	tConfigT
	tDeleteCreatorT
	tMisbehaveS
	tRecoverS // subject S, substitute T
	tOps
)

var tName = []string{"create", "update(T)", "update(S)", "misbehaviour(T)", "recover(T<-S)", "registerCounterparty(T)", "updateConfig(T)",
	"deleteCreator(T)", "misbehaviour(S)", "recover(S<-T)"}

func tText(ops []int) string {
	s := make([]string, len(ops))
	for i, o := range ops {
		s[i] = tName[o]
	}
	return strings.Join(s, " ")
}

type tracer struct {
	c         *core.C
	st        *stats
	wk        *ksim.Worker
	T, S      string
	authority string
	nOps      int
	maxDepth  int
	nodes     int
	committed int
	stop      bool
	outcomes  map[string]int
	keyShapes map[string]int
	sampled   int
}

type traceReplay struct {
	Part string `json:"part"`
	Ops  []int  `json:"ops"`
	Text string `json:"text"`
	Key  string `json:"written_key"`
}

// misbehaviour builds two conflicting signed headers of chain 1 at its executing height.
func (t *tracer) misbehaviour(w *ksim.World, client string) (*ibctm.Misbehaviour, bool) {
	h := w.CS[1].H()
	trusted := w.ClientLatest(0, client)
	h1, ok := w.HonestHeader(1, h, trusted)
	if !ok {
		return nil, false
	}
	blk, _ := w.CS[1].Block(h)
	fork := make([]byte, 32)
	copy(fork, "c16-conflicting-app-hash")
	raw := w.RawHeader(1, h, blk.Time, fork, t.wk.Vals.Set, t.wk.Vals.Set)
	h2, err := ksim.SignHeader(raw, t.wk.Vals, trusted, t.wk.Vals.Set)
	if err != nil {
		panic(err)
	}
	return ibctm.NewMisbehaviour(client, h1, h2), true
}

// advance commits a block on chain 1 (and on chain 0 while its clock lags) so that a new header exists.
func (t *tracer) advance(w *ksim.World) {
	w.Commit(1, ksim.BlockStep)
	for w.CS[1].TimeNs() >= w.CS[0].TimeNs()+int64(ksim.MaxClockDrift) {
		w.Commit(0, ksim.BlockStep)
	}
}

// build returns the message of op, the client it targets ("" = the client it creates) and the other
// client whose namespace is involved read-only (the substitute).
func (t *tracer) build(w *ksim.World, op int) (msg sdk.Msg, target, substitute string, ok bool) {
	switch op {
	case tCreate:
		h := w.CS[1].H()
		cons, found := w.ConsensusStateAt(1, h)
		if !found {
			return nil, "", "", false
		}
		m, err := clienttypes.NewMsgCreateClient(w.TMClientState(1, h), cons, ksim.Signer)
		if err != nil {
			panic(err)
		}
		return m, "", "", true
	case tUpdateT, tUpdateS:
		cl := map[int]string{tUpdateT: t.T, tUpdateS: t.S}[op]
		t.advance(w)
		hdr, found := w.HonestHeader(1, w.CS[1].H(), w.ClientLatest(0, cl))
		if !found {
			return nil, "", "", false
		}
		m, err := clienttypes.NewMsgUpdateClient(cl, hdr, ksim.Signer)
		if err != nil {
			panic(err)
		}
		return m, cl, "", true
	case tMisbehaveT, tMisbehaveS:
		cl := map[int]string{tMisbehaveT: t.T, tMisbehaveS: t.S}[op]
		t.advance(w)
		mb, found := t.misbehaviour(w, cl)
		if !found {
			return nil, "", "", false
		}
		m, err := clienttypes.NewMsgUpdateClient(cl, mb, ksim.Signer)
		if err != nil {
			panic(err)
		}
		return m, cl, "", true
	case tRecoverT:
		return clienttypes.NewMsgRecoverClient(t.authority, t.T, t.S), t.T, t.S, true
	case tRecoverS:
		return clienttypes.NewMsgRecoverClient(t.authority, t.S, t.T), t.S, t.T, true
	case tRegisterT:
		return clientv2types.NewMsgRegisterCounterparty(t.T, [][]byte{[]byte("ibc"), []byte("")}, "07-tendermint-9", ksim.Signer), t.T, "", true
	case tConfigT:
		return clientv2types.NewMsgUpdateClientConfig(t.T, t.authority, clientv2types.NewConfig(ksim.Signer)), t.T, "", true
	case tDeleteCreatorT:
		return clienttypes.NewMsgDeleteClientCreator(t.T, ksim.Signer), t.T, "", true
	}
	return nil, "", "", false
}

// step runs op as one traced transaction on w and checks every written key.
func (t *tracer) step(w *ksim.World, path []int) (committed bool, wrote int) {
	op := path[len(path)-1]
	msg, target, substitute, ok := t.build(w, op)
	if !ok {
		t.outcomes[tName[op]+"=not-buildable"]++
		return false, 0
	}
	if vb, has := msg.(sdk.HasValidateBasic); has {
		if err := vb.ValidateBasic(); err != nil {
			t.outcomes[tName[op]+"=invalid-basic"]++
			return false, 0
		}
	}
	handler := t.wk.Chains[0].App.MsgServiceRouter().Handler(msg)
	var log []traceEntry
	var resp []byte
	before := w.DumpStores(0, ksim.AllStores)
	r := w.Do(0, func(ctx sdk.Context) error {
		log = log[:0]
		res, err := handler(ctx.WithMultiStore(traceMS{ctx.MultiStore(), &log}), msg)
		if err == nil && len(res.MsgResponses) > 0 {
			resp = res.MsgResponses[0].Value
		}
		return err
	})
	if r.Class != ksim.OK {
		t.outcomes[tName[op]+"="+string(r.Class)]++
		return false, 0
	}
	t.outcomes[tName[op]+"=OK"]++
	if op == tCreate {
		var cr clienttypes.MsgCreateClientResponse
		if err := proto.Unmarshal(resp, &cr); err != nil || cr.ClientId == "" {
			t.c.Broken("create client returned no identifier in [%s]", tText(path))
			return true, 0
		}
		target = cr.ClientId
	}
	// self-check: every effective state change must have been seen by the tracer
	traced := map[string]bool{}
	for _, e := range log {
		traced[e.store+"/"+e.key] = true
	}
	for _, k := range ksim.DiffStores(before, w.DumpStores(0, ksim.AllStores)) {
		if !traced[k] {
			t.c.Broken("store key %q changed in [%s] without passing through the write tracer", k, tText(path))
		}
	}
	own := "clients/" + target + "/"
	for _, e := range log {
		verb := "wrote"
		if e.del {
			verb = "deleted"
		}
		allowed := e.store == "ibc" && strings.HasPrefix(e.key, own)
		shape := "clients/<target>/" + keyShape(strings.TrimPrefix(e.key, own))
		switch {
		case allowed:
		case e.store == "ibc" && op == tCreate && e.key == clienttypes.KeyNextClientSequence:
			allowed, shape = true, e.key
		case e.store == "ibc" && op == tRegisterT && e.key == string(hostv2.NextSequenceSendKey(target)):
			allowed, shape = true, "nextSequenceSend//<target>"
		case e.store == "ibc" && substitute != "" && strings.HasPrefix(e.key, "clients/"+substitute+"/"):
			shape = "clients/<substitute>/" + keyShape(strings.TrimPrefix(e.key, "clients/"+substitute+"/"))
		case e.store == "ibc" && strings.HasPrefix(e.key, "clients/"):
			shape = "clients/<other>/" + keyShape(e.key[strings.Index(e.key[len("clients/"):], "/")+len("clients/")+1:])
		default:
			shape = e.store + "/" + strings.ReplaceAll(e.key, target, "<target>")
		}
		t.keyShapes[tName[op]+" "+verb+" "+shape]++
		if !allowed {
			t.c.Violation(fmt.Sprintf("trace/%s/%s=%s", tName[op], verb, shape),
				fmt.Sprintf("%s targeting client %s %s key %q of store %q, outside clients/%s/ (history [%s])", tName[op], target, verb, e.key, e.store, target, tText(path)),
				traceReplay{Part: "trace", Ops: append([]int{}, path...), Text: tText(path), Key: e.store + "/" + e.key})
		}
	}
	return true, len(log)
}

// keyShape replaces heights in a client-store key by a placeholder so that shapes are comparable.
func keyShape(k string) string {
	if strings.HasPrefix(k, "consensusStates/") {
		rest := strings.TrimPrefix(k, "consensusStates/")
		if i := strings.Index(rest, "/"); i >= 0 {
			return "consensusStates/<h>" + rest[i:]
		}
		return "consensusStates/<h>"
	}
	if strings.HasPrefix(k, "iterateConsensusStates") {
		return "iterateConsensusStates<h>"
	}
	return k
}

func (t *tracer) dfs(w *ksim.World, path []int) {
	for op := 0; op < t.nOps; op++ {
		if t.stop {
			return
		}
		child := w.Fork()
		p := append(path[:len(path):len(path)], op)
		var committed bool
		var wrote int
		if pn := core.Catch(func() { committed, wrote = t.step(child, p) }); pn != "" {
			t.c.Broken("tracing step panicked in [%s]: %s", tText(p), pn)
			t.stop = true
			return
		}
		t.nodes++
		t.st.evals++
		if committed && wrote > 0 {
			t.committed++
			t.st.nontrivial++
			if t.sampled < 3 && (op == tRecoverT || op == tMisbehaveT && t.sampled == 0) {
				t.sampled++
				t.c.Sample(map[string]any{"part": "trace", "history": tText(p), "keys_written_by_last_op": wrote})
			}
		}
		if t.c.TimeUp() {
			t.stop = true
			return
		}
		if len(p) < t.maxDepth {
			t.dfs(child, p)
		}
	}
}

func runTrace(c *core.C, st *stats, e *env) {
	t := &tracer{c: c, st: st, wk: e.wk, outcomes: map[string]int{}, keyShapes: map[string]int{}}
	var root *ksim.World
	if p := core.Catch(func() {
		w := e.wk.Root()
		var r ksim.Result
		t.T, r = w.CreateClient(0, 1)
		ksim.MustOK("create T", r)
		t.S, r = w.CreateClient(0, 1)
		ksim.MustOK("create S", r)
		_, r = w.CreateClient(0, 1) // a bystander
		ksim.MustOK("create bystander", r)
		w.Flatten()
		root = w
	}); p != "" {
		c.Broken("trace set-up failed: %s", p)
		return
	}
	t.authority = e.wk.Chains[0].App.IBCKeeper.GetAuthority()
	t.nOps = core.Pick(c, tDeleteCreatorT+1, tOps)
	t.maxDepth = core.Pick(c, 4, 5)
	t.dfs(root, nil)
	c.Set("trace_depth", t.maxDepth)
	c.Set("trace_alphabet", t.nOps)
	c.Set("trace_histories", t.nodes)
	c.Set("trace_committed_writing_ops", t.committed)
	c.Set("trace_outcomes", t.outcomes)
	c.Set("trace_written_key_shapes", t.keyShapes)
	for _, must := range []string{"recover(T<-S)=OK", "misbehaviour(T)=OK", "update(T)=OK", "create=OK"} {
		if t.outcomes[must] == 0 && !c.Capped() {
			c.Broken("no history reached %s; the tracing alphabet is vacuous", must)
		}
	}
}
