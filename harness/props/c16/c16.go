// Package c16 decides C16: store keys of distinct protocol objects never collide (IBC v1, IBC v2,
// client stores, and v1 against v2), per-client / per-channel prefix iteration never returns
// another's entries, and client operations write only inside the namespace of the client they
// target (recovery never writes the substitute's namespace).
//
//	c16.go    identifier family, every key builder, injectivity of key bytes -> (kind, ids, seq)
//	iter.go   a real store populated for the whole family, the real per-client / per-channel iterators
//	trace.go  every short history of client operations with every store write traced
package c16

import (
	"crypto/sha256"
	"encoding/binary"
	"fmt"
	"sort"
	"strings"

	clienttypes "github.com/cosmos/ibc-go/v11/modules/core/02-client/types"
	clientv2types "github.com/cosmos/ibc-go/v11/modules/core/02-client/v2/types"
	connectiontypes "github.com/cosmos/ibc-go/v11/modules/core/03-connection/types"
	channeltypes "github.com/cosmos/ibc-go/v11/modules/core/04-channel/types"
	channeltypesv2 "github.com/cosmos/ibc-go/v11/modules/core/04-channel/v2/types"
	host "github.com/cosmos/ibc-go/v11/modules/core/24-host"
	hostv2 "github.com/cosmos/ibc-go/v11/modules/core/24-host/v2"
	ibctm "github.com/cosmos/ibc-go/v11/modules/light-clients/07-tendermint"

	"verif/harness/core"
)

func init() { core.Register("C16", "exploration", run) }

type stats struct {
	evals      int
	nontrivial int
}

// ---- identifier family ---------------------------------------------------------------------------

const pad = "zzzzzzzzzz" // brings every short string to a length every identifier validator accepts

// spell reads 8 ASCII bytes as a big-endian sequence number.
func spell(s string) uint64 { return binary.BigEndian.Uint64([]byte(s)) }

// structuredBases are realistic identifiers extended by the constants the key layouts use.
var structuredBases = []string{"07-tendermint-1", "channel-1", "connection-1", "transfer-1"}

var layoutConstants = []string{"nextSequenceSend", "nextSequenceRecv", "nextSequenceAck", "commitments", "acks", "receipts",
	"recvStartSequence", "channelEnds", "connections", "clients", "ports", "channels", "sequences", "clientState",
	"consensusStates", "counterparty", "config", "creator", "async_packet", "alias", "iterateConsensusStates",
	"nextClientSequence", "nextConnectionSequence", "nextChannelSequence"}

type family struct {
	ids     []string // sorted, unique
	related []bool   // ids[i] is a proper string-prefix of, or properly extends, another member
	short   []int    // length of the enumerated string the member was padded from, -1 for structured members
	role    map[string][]int
}

// portSubset is the part of the family used as port identifiers in the quadratic (port, channel) kinds.
func (f *family) portSubset(maxStr int) []int {
	var out []int
	for _, i := range f.role[rPort] {
		if f.short[i] < 0 || f.short[i] <= maxStr {
			out = append(out, i)
		}
	}
	return out
}

const (
	rClient = "client"
	rConn   = "connection"
	rChan   = "channel"
	rPort   = "port"
	rV2     = "v2id" // identifier of a v2 packet key: a client identifier or an aliased v1 channel identifier
)

func buildFamily(c *core.C) *family {
	set := map[string]bool{}
	shortOf := map[string]int{}
	for _, s := range core.AllStrings([]string{"a", "b", "-", "0", "1", "."}, 3) {
		set[pad+s] = true // prefix-related members: pad+"a" / pad+"a0" / pad+"a01"
		set[s+pad] = true // fixed suffix
		shortOf[pad+s], shortOf[s+pad] = len(s), len(s)
	}
	// candidates containing the path separator: rejected by every identifier validator of the unchanged tree
	// (they then play no role); kept so that a validator that lets '/' through is exposed by key collisions
	for _, s := range []string{pad + "/" + pad, pad + "/channels/" + pad, pad + "/sequences/1", "clients/" + pad, pad + "/clientState"} {
		set[s] = true
	}
	for _, b := range structuredBases {
		for _, suf := range []string{"", "0", "async_packet", "alias", "async_packet-0", "alias-0", "async_packetaaa", "async_packetaaa-0"} {
			set[b+suf] = true
		}
	}
	for _, k := range layoutConstants {
		set[k] = true
		set[k+"-0"] = true
		set[pad+k] = true
	}
	f := &family{role: map[string][]int{}}
	for s := range set {
		f.ids = append(f.ids, s)
	}
	sort.Strings(f.ids)
	f.related = make([]bool, len(f.ids))
	f.short = make([]int, len(f.ids))
	for i, id := range f.ids {
		f.short[i] = -1
		if n, ok := shortOf[id]; ok {
			f.short[i] = n
		}
	}
	for i, a := range f.ids { // sorted: every extension of a follows it directly
		for j := i + 1; j < len(f.ids) && strings.HasPrefix(f.ids[j], a); j++ {
			f.related[i], f.related[j] = true, true
		}
	}
	validators := map[string]func(string) error{rClient: host.ClientIdentifierValidator, rConn: host.ConnectionIdentifierValidator,
		rChan: host.ChannelIdentifierValidator, rPort: host.PortIdentifierValidator}
	for i, id := range f.ids {
		v2 := false
		for _, r := range []string{rClient, rConn, rChan, rPort} {
			if validators[r](id) == nil {
				f.role[r] = append(f.role[r], i)
				v2 = v2 || r == rClient || r == rChan
			}
		}
		if v2 {
			f.role[rV2] = append(f.role[rV2], i)
		}
	}
	for _, r := range []string{rClient, rConn, rChan, rPort, rV2} {
		if len(f.role[r]) < 100 {
			c.Broken("identifier family has only %d members valid as %s", len(f.role[r]), r)
		}
		c.Set("ids_valid_as_"+r, len(f.role[r]))
	}
	c.Set("identifier_family", len(f.ids))
	return f
}

// ---- key kinds -----------------------------------------------------------------------------------

var seqs = []uint64{0, 1, 47, 255, 256, 1 << 32, 1<<64 - 1,
	// byte-level confusion: sequences whose big-endian bytes are printable
	spell("aaaalias"), spell("////////"), 1 << 56}

var heights = []clienttypes.Height{{RevisionNumber: 0, RevisionHeight: 1}, {RevisionNumber: 1, RevisionHeight: 1}, {RevisionNumber: 1, RevisionHeight: 10},
	{RevisionNumber: 11, RevisionHeight: 0}, {RevisionNumber: 1, RevisionHeight: 47}, {RevisionNumber: 0, RevisionHeight: 1<<64 - 1}, {RevisionNumber: 1<<64 - 1, RevisionHeight: 0}}

const (
	argNone = iota
	argSeq
	argHeight
)

type kind struct {
	name  string
	space string   // v1 | v2 | client | shared | global
	roles []string // roles of the identifier arguments (0, 1 or 2)
	arg   int
	build func(a, b string, n uint64, h clienttypes.Height) []byte
}

func kinds() []kind {
	cs := func(path func(h clienttypes.Height) []byte) func(a, b string, n uint64, h clienttypes.Height) []byte {
		return func(a, _ string, _ uint64, h clienttypes.Height) []byte { return host.FullClientKey(a, path(h)) }
	}
	fixed := func(p []byte) func(h clienttypes.Height) []byte { return func(clienttypes.Height) []byte { return p } }
	pc := []string{rPort, rChan}
	return []kind{
		// IBC v1, keyed by (port, channel[, sequence])
		{"v1.commitment", "v1", pc, argSeq, func(a, b string, n uint64, _ clienttypes.Height) []byte { return host.PacketCommitmentKey(a, b, n) }},
		{"v1.ack", "v1", pc, argSeq, func(a, b string, n uint64, _ clienttypes.Height) []byte {
			return host.PacketAcknowledgementKey(a, b, n)
		}},
		{"v1.receipt", "v1", pc, argSeq, func(a, b string, n uint64, _ clienttypes.Height) []byte { return host.PacketReceiptKey(a, b, n) }},
		{"v1.nextSeqRecv", "v1", pc, argNone, func(a, b string, _ uint64, _ clienttypes.Height) []byte { return host.NextSequenceRecvKey(a, b) }},
		{"v1.nextSeqAck", "v1", pc, argNone, func(a, b string, _ uint64, _ clienttypes.Height) []byte { return host.NextSequenceAckKey(a, b) }},
		{"v1.recvStart", "v1", pc, argNone, func(a, b string, _ uint64, _ clienttypes.Height) []byte { return host.RecvStartSequenceKey(a, b) }},
		{"v1.channelEnd", "v1", pc, argNone, func(a, b string, _ uint64, _ clienttypes.Height) []byte { return host.ChannelKey(a, b) }},
		{"v1.connection", "v1", []string{rConn}, argNone, func(a, _ string, _ uint64, _ clienttypes.Height) []byte { return host.ConnectionKey(a) }},
		// the next-sequence-send key is shared by v1 channels and v2 clients and keyed by the identifier alone
		{"shared.nextSeqSend", "shared", []string{rV2}, argNone, func(a, _ string, _ uint64, _ clienttypes.Height) []byte { return hostv2.NextSequenceSendKey(a) }},
		// IBC v2, keyed by (client or alias, sequence)
		{"v2.commitment", "v2", []string{rV2}, argSeq, func(a, _ string, n uint64, _ clienttypes.Height) []byte { return hostv2.PacketCommitmentKey(a, n) }},
		{"v2.receipt", "v2", []string{rV2}, argSeq, func(a, _ string, n uint64, _ clienttypes.Height) []byte { return hostv2.PacketReceiptKey(a, n) }},
		{"v2.ack", "v2", []string{rV2}, argSeq, func(a, _ string, n uint64, _ clienttypes.Height) []byte { return hostv2.PacketAcknowledgementKey(a, n) }},
		{"v2.async", "v2", []string{rV2}, argSeq, func(a, _ string, n uint64, _ clienttypes.Height) []byte { return channeltypesv2.AsyncPacketKey(a, n) }},
		{"v2.alias", "v2", []string{rChan}, argNone, func(a, _ string, _ uint64, _ clienttypes.Height) []byte { return channeltypesv2.AliasKey(a) }},
		// client stores
		{"client.state", "client", []string{rClient}, argNone, func(a, _ string, _ uint64, _ clienttypes.Height) []byte { return host.FullClientStateKey(a) }},
		{"client.consensus", "client", []string{rClient}, argHeight, func(a, _ string, _ uint64, h clienttypes.Height) []byte { return host.FullConsensusStateKey(a, h) }},
		{"client.connections", "client", []string{rClient}, argNone, func(a, _ string, _ uint64, _ clienttypes.Height) []byte { return host.ClientConnectionsKey(a) }},
		{"client.creator", "client", []string{rClient}, argNone, cs(fixed(clienttypes.CreatorKey()))},
		{"client.v2counterparty", "client", []string{rClient}, argNone, cs(fixed(clientv2types.CounterpartyKey()))},
		{"client.v2config", "client", []string{rClient}, argNone, cs(fixed(clientv2types.ConfigKey()))},
		{"client.tmProcessedTime", "client", []string{rClient}, argHeight, cs(func(h clienttypes.Height) []byte { return ibctm.ProcessedTimeKey(h) })},
		{"client.tmProcessedHeight", "client", []string{rClient}, argHeight, cs(func(h clienttypes.Height) []byte { return ibctm.ProcessedHeightKey(h) })},
		{"client.tmIteration", "client", []string{rClient}, argHeight, cs(func(h clienttypes.Height) []byte { return ibctm.IterationKey(h) })},
		// global counters and parameters of the ibc store
		{"global.nextClientSequence", "global", nil, argNone, func(string, string, uint64, clienttypes.Height) []byte {
			return []byte(clienttypes.KeyNextClientSequence)
		}},
		{"global.nextConnectionSequence", "global", nil, argNone, func(string, string, uint64, clienttypes.Height) []byte {
			return []byte(connectiontypes.KeyNextConnectionSequence)
		}},
		{"global.nextChannelSequence", "global", nil, argNone, func(string, string, uint64, clienttypes.Height) []byte {
			return []byte(channeltypes.KeyNextChannelSequence)
		}},
		{"global.clientParams", "global", nil, argNone, func(string, string, uint64, clienttypes.Height) []byte { return []byte(clienttypes.ParamsKey) }},
		{"global.connectionParams", "global", nil, argNone, func(string, string, uint64, clienttypes.Height) []byte { return []byte(connectiontypes.ParamsKey) }},
	}
}

// rec is one enumerated tuple (kind, ids, seq|height), compact so that millions fit.
type rec struct {
	k    uint8
	arg  uint8
	a, b uint16
}

type space struct {
	f     *family
	kinds []kind
}

func (s *space) key(r rec) []byte {
	k := s.kinds[r.k]
	var a, b string
	if len(k.roles) > 0 {
		a = s.f.ids[r.a]
	}
	if len(k.roles) > 1 {
		b = s.f.ids[r.b]
	}
	var n uint64
	var h clienttypes.Height
	switch k.arg {
	case argSeq:
		n = seqs[r.arg]
	case argHeight:
		h = heights[r.arg]
	}
	return k.build(a, b, n, h)
}

func (s *space) desc(r rec) string {
	k := s.kinds[r.k]
	var parts []string
	if len(k.roles) > 0 {
		parts = append(parts, s.f.ids[r.a])
	}
	if len(k.roles) > 1 {
		parts = append(parts, s.f.ids[r.b])
	}
	switch k.arg {
	case argSeq:
		parts = append(parts, fmt.Sprint(seqs[r.arg]))
	case argHeight:
		parts = append(parts, heights[r.arg].String())
	}
	return k.name + "(" + strings.Join(parts, ",") + ")"
}

// relation describes identifier x relative to y in a way that does not depend on the concrete base.
func relation(x, y string) string {
	switch {
	case x == y:
		return "same"
	case strings.HasPrefix(x, y):
		return "other+" + strings.TrimPrefix(x, y)
	case strings.HasPrefix(y, x):
		return "other-" + strings.TrimPrefix(y, x)
	}
	return x + "|" + y
}

type collisionReplay struct {
	Part string `json:"part"`
	A    string `json:"a"`
	B    string `json:"b"`
	Key  string `json:"key_hex"`
}

// runKeys builds every key and checks that no two distinct tuples share key bytes.
func runKeys(c *core.C, st *stats, f *family) {
	sp := &space{f: f, kinds: kinds()}
	// ports for the quadratic v1 part: the members padded from strings of length <= 1 (thorough <= 2) plus the structured ones
	ports := f.portSubset(core.Pick(c, 1, 2))
	c.Set("v1_ports", len(ports))
	seen := make(map[[16]byte]uint32, 1<<20)
	var recs []rec
	perSpace := map[string]int{}
	collisions := 0
	add := func(r rec) {
		key := sp.key(r)
		sum := sha256.Sum256(key)
		var h [16]byte
		copy(h[:], sum[:16])
		st.evals++
		k := sp.kinds[r.k]
		perSpace[k.space]++
		if (len(k.roles) > 0 && f.related[r.a]) || (len(k.roles) > 1 && f.related[r.b]) {
			st.nontrivial++
		}
		if j, ok := seen[h]; ok {
			o := recs[j]
			if o == r {
				c.Broken("tuple %s enumerated twice", sp.desc(r))
				return
			}
			if string(sp.key(o)) != string(key) {
				c.Broken("128-bit hash collision between %s and %s", sp.desc(o), sp.desc(r))
				return
			}
			collisions++
			ka, kb := sp.kinds[o.k], k
			rel := ""
			if len(ka.roles) > 0 && len(kb.roles) > 0 {
				rel = "/id=" + relation(f.ids[o.a], f.ids[r.a])
			}
			argTxt := ""
			switch {
			case ka.arg == argSeq && kb.arg == argSeq && seqs[o.arg] == seqs[r.arg]:
				argTxt = "/seq=same"
			case ka.arg == argSeq && kb.arg == argSeq:
				argTxt = fmt.Sprintf("/seqA=%d/seqB=%d", seqs[o.arg], seqs[r.arg])
			case ka.arg == argSeq:
				argTxt = fmt.Sprintf("/seqA=%d", seqs[o.arg])
			case kb.arg == argSeq:
				argTxt = fmt.Sprintf("/seqB=%d", seqs[r.arg])
			}
			c.Violation(fmt.Sprintf("collision/%s~%s%s%s", ka.name, kb.name, rel, argTxt),
				fmt.Sprintf("distinct objects share one store key: %s and %s both map to %q", sp.desc(o), sp.desc(r), key),
				collisionReplay{Part: "collision", A: sp.desc(o), B: sp.desc(r), Key: fmt.Sprintf("%x", key)})
			return
		}
		seen[h] = uint32(len(recs))
		recs = append(recs, r)
	}
	for ki, k := range sp.kinds {
		nArg := 1
		switch k.arg {
		case argSeq:
			nArg = len(seqs)
		case argHeight:
			nArg = len(heights)
		}
		switch len(k.roles) {
		case 0:
			add(rec{k: uint8(ki)})
		case 1:
			for _, a := range f.role[k.roles[0]] {
				for x := 0; x < nArg; x++ {
					add(rec{k: uint8(ki), a: uint16(a), arg: uint8(x)})
				}
			}
		case 2:
			for _, a := range ports {
				for _, b := range f.role[k.roles[1]] {
					for x := 0; x < nArg; x++ {
						add(rec{k: uint8(ki), a: uint16(a), b: uint16(b), arg: uint8(x)})
					}
				}
				if c.TimeUp() {
					break
				}
			}
		}
	}
	c.Set("keys_built", len(recs)+collisions)
	c.Set("keys_per_space", perSpace)
	c.Set("key_kinds", len(sp.kinds))
	c.Set("key_collisions", collisions)
	c.Set("sequences", len(seqs))
	mid := recs[len(recs)/2]
	c.Sample(map[string]any{"part": "key", "tuple": sp.desc(mid), "key": fmt.Sprintf("%q", sp.key(mid))})
	for _, r := range recs {
		if sp.kinds[r.k].name == "v2.async" && f.related[r.a] {
			c.Sample(map[string]any{"part": "key", "tuple": sp.desc(r), "key": fmt.Sprintf("%q", sp.key(r))})
			break
		}
	}
}

func run(c *core.C) {
	if c.Replay != "" {
		c.Assume("replay re-runs the quick enumeration; single-case replay is not implemented for C16 (the failing tuples are named in the artefact)")
	}
	st := &stats{}
	f := buildFamily(c)
	runKeys(c, st, f)
	env := newEnv(c)
	if env != nil {
		runIter(c, st, f, env)
		runTrace(c, st, env)
	}
	c.Set("evaluations", st.evals)
	c.Set("distinct_nontrivial", st.nontrivial)
	c.Set("rule", "keys: every (kind, identifiers, sequence|height) tuple over the identifier family (all strings <=3 over {a,b,-,0,1,.} padded on either side, plus realistic identifiers extended by the layout constants), each identifier used only in roles whose validator accepts it; non-trivial = tuples with an identifier that is a proper prefix/extension of another family member. iteration: every family identifier populated in one real store, every per-client / per-channel iterator called for every identifier; non-trivial = identifiers with a prefix-related sibling. tracing: every history of client operations up to the stated depth, every store write of every transaction traced; non-trivial = committed operations that wrote at least one key")
	c.Assume("the v1 next-sequence-send key is shared with v2 and keyed by the channel identifier alone (04-channel keeper comment: channel identifiers are unique per chain), so it is modelled as one kind keyed by (identifier)")
	c.Assume("RegisterCounterparty also initialises nextSequenceSend//<client>, a key of the target client's own v2 packet namespace; it is accepted as inside the target's namespace")
}
