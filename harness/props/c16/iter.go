package c16

import (
	"fmt"
	"sort"
	"strings"

	storetypes "github.com/cosmos/cosmos-sdk/store/v2/types"
	sdk "github.com/cosmos/cosmos-sdk/types"

	channeltypes "github.com/cosmos/ibc-go/v11/modules/core/04-channel/types"
	channeltypesv2 "github.com/cosmos/ibc-go/v11/modules/core/04-channel/v2/types"
	host "github.com/cosmos/ibc-go/v11/modules/core/24-host"
	hostv2 "github.com/cosmos/ibc-go/v11/modules/core/24-host/v2"

	"verif/harness/core"
	"verif/harness/ksim"
)

// env holds the real chains shared by the iteration and the tracing part.
type env struct {
	wk *ksim.Worker
}

func newEnv(c *core.C) *env {
	var e *env
	if p := core.Catch(func() { e = &env{wk: ksim.NewWorker(c.T, 2)} }); p != "" {
		c.Broken("cannot build the chains: %s", p)
		return nil
	}
	return e
}

var iterSeqs = []uint64{1, 47, 1<<64 - 1}

type iterReplay struct {
	Part     string   `json:"part"`
	Iterator string   `json:"iterator"`
	Target   string   `json:"target"`
	Foreign  []string `json:"foreign_entries"`
	Panic    string   `json:"panic,omitempty"`
}

// runIter populates one real ibc store with entries for every family identifier and calls the real
// per-client (v2 keeper), per-channel (v1 keeper) and per-client-store iterators for each of them.
func runIter(c *core.C, st *stats, f *family, e *env) {
	ch := e.wk.Chains[0]
	ctx, _ := ch.TC.GetContext().CacheContext()
	k1 := ch.App.IBCKeeper.ChannelKeeper
	k2 := ch.App.IBCKeeper.ChannelKeeperV2
	ck := ch.App.IBCKeeper.ClientKeeper
	raw := ctx.KVStore(ch.App.GetKey("ibc"))

	owner := map[string]string{} // every key written below -> "kind(id...)"
	note := func(key []byte, who string) { owner[string(key)] = who }

	// ---- populate: v2 ----
	v2ids := f.role[rV2]
	for _, i := range v2ids {
		id := f.ids[i]
		for _, s := range iterSeqs {
			k2.SetPacketCommitment(ctx, id, s, []byte(fmt.Sprintf("C|%s|%d", id, s)))
			note(hostv2.PacketCommitmentKey(id, s), "v2.commitment("+id+")")
			k2.SetPacketReceipt(ctx, id, s)
			note(hostv2.PacketReceiptKey(id, s), "v2.receipt("+id+")")
			k2.SetPacketAcknowledgement(ctx, id, s, []byte(fmt.Sprintf("A|%s|%d", id, s)))
			note(hostv2.PacketAcknowledgementKey(id, s), "v2.ack("+id+")")
			k2.SetAsyncPacket(ctx, id, s, channeltypesv2.Packet{Sequence: s, SourceClient: "src", DestinationClient: id, TimeoutTimestamp: 1})
			note(channeltypesv2.AsyncPacketKey(id, s), "v2.async("+id+")")
		}
		k2.SetNextSequenceSend(ctx, id, 7)
		note(hostv2.NextSequenceSendKey(id), "shared.nextSeqSend("+id+")")
	}
	for _, i := range f.role[rChan] {
		id := f.ids[i]
		k2.SetClientForAlias(ctx, id, "07-tendermint-0")
		note(channeltypesv2.AliasKey(id), "v2.alias("+id+")")
	}
	// ---- populate: v1 (ports x channels); only every second channel gets commitments ----
	// quick: the bare pad and the realistic identifiers; thorough: every member padded from a string of length <= 1 and all structured ones
	ports := f.portSubset(1)
	if c.Quick() {
		ports = nil
		for _, i := range f.portSubset(0) {
			for _, b := range append([]string{pad}, structuredBases...) {
				if strings.HasPrefix(f.ids[i], b) {
					ports = append(ports, i)
					break
				}
			}
		}
	}
	chans := f.role[rChan]
	v1seqs := []uint64{1, 10, 47}
	for _, pi := range ports {
		p := f.ids[pi]
		for n, ci := range chans {
			chn := f.ids[ci]
			for _, s := range v1seqs {
				if n%2 == 0 {
					k1.SetPacketCommitment(ctx, p, chn, s, []byte(fmt.Sprintf("C|%s|%s|%d", p, chn, s)))
					note(host.PacketCommitmentKey(p, chn, s), "v1.commitment("+p+","+chn+")")
				}
				k1.SetPacketAcknowledgement(ctx, p, chn, s, []byte("A"))
				note(host.PacketAcknowledgementKey(p, chn, s), "v1.ack("+p+","+chn+")")
				k1.SetPacketReceipt(ctx, p, chn, s)
				note(host.PacketReceiptKey(p, chn, s), "v1.receipt("+p+","+chn+")")
			}
		}
	}
	// ---- populate: client stores ----
	for _, i := range f.role[rClient] {
		id := f.ids[i]
		cs := ck.ClientStore(ctx, id)
		cs.Set([]byte("verif/a"), []byte(id))
		cs.Set([]byte("verif/b"), []byte(id))
		note(host.FullClientKey(id, []byte("verif/a")), "client.store("+id+")")
		note(host.FullClientKey(id, []byte("verif/b")), "client.store("+id+")")
	}
	c.Set("iter_store_entries", len(owner))

	// foreign lists the entries under prefix that do not belong to self.
	foreign := func(prefix []byte, self string) []string {
		var out []string
		it := storetypes.KVStorePrefixIterator(raw, prefix)
		defer it.Close()
		for ; it.Valid(); it.Next() {
			who, ok := owner[string(it.Key())]
			if !ok {
				// not written at the key the harness expected: attribute it by its value where that names the owner
				who = fmt.Sprintf("untracked(%s)", it.Value())
			}
			if who != self {
				out = append(out, who)
			}
		}
		return out
	}
	report := func(iterator, target, self string, prefix []byte, panicText, mismatch string) {
		fs := foreign(prefix, self)
		shape := "none-found"
		if len(fs) > 0 {
			// name the first foreign entry relative to the target so that the key does not depend on the base identifier
			who := fs[0]
			if !strings.Contains(who, "(") {
				who = "unknown(" + who + ")"
			}
			kindName := who[:strings.Index(who, "(")]
			otherID := strings.TrimSuffix(who[strings.Index(who, "(")+1:], ")")
			if j := strings.LastIndex(otherID, ","); j >= 0 {
				otherID = otherID[j+1:]
			}
			tgt := target
			if j := strings.LastIndex(tgt, ","); j >= 0 {
				tgt = tgt[j+1:]
			}
			shape = kindName + "/" + relation(otherID, tgt)
		}
		what := mismatch
		if panicText != "" {
			what = "panics (" + panicText + ")"
		}
		uniq := map[string]bool{}
		var short []string
		for _, x := range fs {
			if !uniq[x] && len(short) < 8 {
				uniq[x] = true
				short = append(short, x)
			}
		}
		c.Violation(fmt.Sprintf("prefix-iter/%s/foreign=%s", iterator, shape),
			fmt.Sprintf("%s(%s) %s; its store prefix %q also covers entries of other objects: %v", iterator, target, what, prefix, short),
			iterReplay{Part: "iteration", Iterator: iterator, Target: target, Foreign: short, Panic: panicText})
	}

	// ---- check: v2 per-client iterators ----
	type v2it struct {
		name   string
		self   string
		call   func(sdk.Context, string) []channeltypesv2.PacketState
		prefix func(string) []byte
		data   func(id string, s uint64) []byte // nil: not compared
	}
	its := []v2it{
		{"v2.GetAllPacketCommitmentsForClient", "v2.commitment", k2.GetAllPacketCommitmentsForClient, hostv2.PacketCommitmentPrefixKey,
			func(id string, s uint64) []byte { return []byte(fmt.Sprintf("C|%s|%d", id, s)) }},
		{"v2.GetAllPacketAcknowledgementsForClient", "v2.ack", k2.GetAllPacketAcknowledgementsForClient, hostv2.PacketAcknowledgementPrefixKey,
			func(id string, s uint64) []byte { return []byte(fmt.Sprintf("A|%s|%d", id, s)) }},
		{"v2.GetAllPacketReceiptsForClient", "v2.receipt", k2.GetAllPacketReceiptsForClient, hostv2.PacketReceiptPrefixKey,
			func(string, uint64) []byte { return []byte{2} }},
		{"v2.GetAllAsyncPacketsForClient", "v2.async", k2.GetAllAsyncPacketsForClient, channeltypesv2.AsyncPacketPrefixKey, nil},
	}
	calls := 0
	for _, i := range v2ids {
		id := f.ids[i]
		for _, it := range its {
			var got []channeltypesv2.PacketState
			p := core.Catch(func() { got = it.call(ctx, id) })
			calls++
			st.evals++
			if f.related[i] {
				st.nontrivial++
			}
			bad := ""
			if p == "" {
				if len(got) != len(iterSeqs) {
					bad = fmt.Sprintf("returned %d entries, the client has %d", len(got), len(iterSeqs))
				} else {
					for n, s := range iterSeqs { // ascending big-endian order
						if got[n].ClientId != id || got[n].Sequence != s || (it.data != nil && string(got[n].Data) != string(it.data(id, s))) {
							bad = fmt.Sprintf("entry %d is (%s,%d,%q), expected sequence %d of %s", n, got[n].ClientId, got[n].Sequence, got[n].Data, s, id)
							break
						}
					}
				}
			}
			if p != "" || bad != "" {
				report(it.name, id, it.self+"("+id+")", it.prefix(id), p, bad)
			}
		}
	}
	// ---- check: v1 per-channel iterators ----
	for _, pi := range ports {
		p := f.ids[pi]
		for n, ci := range chans {
			chn := f.ids[ci]
			want := 0
			if n%2 == 0 {
				want = len(v1seqs)
			}
			var got []channeltypes.PacketState
			var iterated []uint64
			var inflight bool
			pn := core.Catch(func() {
				got = k1.GetAllPacketCommitmentsAtChannel(ctx, p, chn)
				k1.IteratePacketCommitmentAtChannel(ctx, p, chn, func(_, _ string, s uint64, h []byte) bool {
					if string(h) != fmt.Sprintf("C|%s|%s|%d", p, chn, s) {
						iterated = append(iterated, 0)
					}
					iterated = append(iterated, s)
					return false
				})
				inflight = k1.HasInflightPackets(ctx, p, chn)
			})
			calls += 3
			st.evals += 3
			if f.related[ci] || f.related[pi] {
				st.nontrivial++
			}
			bad := ""
			switch {
			case pn != "":
			case len(got) != want || len(iterated) != want:
				bad = fmt.Sprintf("returned %d / iterated %d commitments, the channel has %d", len(got), len(iterated), want)
			case inflight != (want > 0):
				bad = fmt.Sprintf("HasInflightPackets=%v although the channel has %d commitments", inflight, want)
			default:
				for _, g := range got {
					if g.PortId != p || g.ChannelId != chn || string(g.Data) != fmt.Sprintf("C|%s|%s|%d", p, chn, g.Sequence) {
						bad = fmt.Sprintf("returned a commitment of another channel: %v", g)
						break
					}
				}
			}
			if pn != "" || bad != "" {
				report("v1.PacketCommitmentsAtChannel", p+","+chn, "v1.commitment("+p+","+chn+")", host.PacketCommitmentPrefixKey(p, chn), pn, bad)
			}
		}
		if c.TimeUp() {
			break
		}
	}
	// ---- check: client stores ----
	for _, i := range f.role[rClient] {
		id := f.ids[i]
		var vals []string
		p := core.Catch(func() {
			it := ck.ClientStore(ctx, id).Iterator(nil, nil)
			defer it.Close()
			for ; it.Valid(); it.Next() {
				vals = append(vals, string(it.Value()))
			}
		})
		calls++
		st.evals++
		if f.related[i] {
			st.nontrivial++
		}
		bad := ""
		if len(vals) != 2 {
			bad = fmt.Sprintf("iterating the client store yields %d entries, 2 were written", len(vals))
		}
		for _, v := range vals {
			if v != id {
				bad = fmt.Sprintf("iterating the client store of %s yields an entry of %s", id, v)
			}
		}
		if p != "" || bad != "" {
			report("client.ClientStore", id, "client.store("+id+")", []byte("clients/"+id), p, bad)
		}
	}
	c.Set("iter_calls", calls)
	c.Set("iter_v1_ports", len(ports))
	c.Set("iter_v1_channels", len(chans))
	c.Sample(map[string]any{"part": "iteration", "iterator": "v2.GetAllPacketCommitmentsForClient", "target": f.ids[v2ids[len(v2ids)/2]], "entries": len(iterSeqs)})

	// ---- observation only (not part of the verdict): the global v1 scans use '/'-less prefixes ----
	var obs []string
	for _, g := range []struct {
		name string
		call func()
		pref string
	}{
		{"v1.GetAllPacketCommitments", func() { k1.GetAllPacketCommitments(ctx) }, host.KeyPacketCommitmentPrefix},
		{"v1.GetAllPacketAcks", func() { k1.GetAllPacketAcks(ctx) }, host.KeyPacketAckPrefix},
		{"v1.GetAllPacketReceipts", func() { k1.GetAllPacketReceipts(ctx) }, host.KeyPacketReceiptPrefix},
	} {
		if p := core.Catch(g.call); p != "" {
			var who []string
			uniq := map[string]bool{}
			for _, x := range foreign([]byte(g.pref), "") {
				if !strings.HasPrefix(x, "v1.") && !uniq[x] {
					uniq[x] = true
					who = append(who, x)
				}
			}
			sort.Strings(who)
			if len(who) > 3 {
				who = who[:3]
			}
			obs = append(obs, fmt.Sprintf("%s panics (%s): its prefix %q has no trailing '/' and also covers v2 keys of identifiers that begin with it, e.g. %v", g.name, p, g.pref, who))
		}
	}
	if len(obs) > 0 {
		c.Set("observations_not_in_verdict", obs)
	}
}
