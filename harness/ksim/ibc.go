package ksim

import (
	"fmt"
	"time"

	"github.com/cosmos/gogoproto/proto"

	sdk "github.com/cosmos/cosmos-sdk/types"

	abci "github.com/cometbft/cometbft/abci/types"

	clienttypes "github.com/cosmos/ibc-go/v11/modules/core/02-client/types"
	clientv2types "github.com/cosmos/ibc-go/v11/modules/core/02-client/v2/types"
	connectiontypes "github.com/cosmos/ibc-go/v11/modules/core/03-connection/types"
	channeltypes "github.com/cosmos/ibc-go/v11/modules/core/04-channel/types"
	channeltypesv2 "github.com/cosmos/ibc-go/v11/modules/core/04-channel/v2/types"
	commitmenttypes "github.com/cosmos/ibc-go/v11/modules/core/23-commitment/types"
	host "github.com/cosmos/ibc-go/v11/modules/core/24-host"
	hostv2 "github.com/cosmos/ibc-go/v11/modules/core/24-host/v2"
	"github.com/cosmos/ibc-go/v11/modules/core/exported"
	ibctm "github.com/cosmos/ibc-go/v11/modules/light-clients/07-tendermint"
	ibctesting "github.com/cosmos/ibc-go/v11/testing"
	ibcmock "github.com/cosmos/ibc-go/v11/testing/mock"
	mockv2 "github.com/cosmos/ibc-go/v11/testing/mock/v2"
)

// Default tendermint client parameters.
var (
	TrustingPeriod  = 14 * 24 * time.Hour
	UnbondingPeriod = 21 * 24 * time.Hour
	MaxClockDrift   = 10 * time.Second
)

// Prefix is the commitment prefix of every harness chain.
var Prefix = commitmenttypes.NewMerklePrefix([]byte("ibc"))

// TMClientState builds the client state describing chain i at its executing height.
func (w *World) TMClientState(i int, h int64) *ibctm.ClientState {
	return ibctm.NewClientState(w.W.Chains[i].ChainID, ibctm.DefaultTrustLevel, TrustingPeriod, UnbondingPeriod, MaxClockDrift,
		w.Height(i, h), commitmenttypes.GetSDKSpecs(), ibctesting.UpgradePath)
}

// CreateClient creates on chain `on` a tendermint client of chain `of` at of's executing height.
func (w *World) CreateClient(on, of int) (string, Result) {
	h := w.CS[of].H()
	cons, ok := w.ConsensusStateAt(of, h)
	if !ok {
		return "", Result{Class: ERR, Code: "harness/no-committed-state"}
	}
	msg, err := clienttypes.NewMsgCreateClient(w.TMClientState(of, h), cons, Signer)
	if err != nil {
		panic(err)
	}
	res := w.Tx(on, msg)
	if res.Class != OK {
		return "", res
	}
	var resp clienttypes.MsgCreateClientResponse
	if err := proto.Unmarshal(res.Resp, &resp); err != nil {
		panic(err)
	}
	return resp.ClientId, res
}

// ClientLatest returns the latest height of a client on chain i.
func (w *World) ClientLatest(i int, clientID string) clienttypes.Height {
	h := w.W.Chains[i].App.IBCKeeper.ClientKeeper.GetClientLatestHeight(w.CS[i].Ctx, clientID)
	return h
}

// HasConsensus reports whether the client on chain i stores a consensus state at height h.
func (w *World) HasConsensus(i int, clientID string, h clienttypes.Height) bool {
	_, ok := w.W.Chains[i].App.IBCKeeper.ClientKeeper.GetClientConsensusState(w.CS[i].Ctx, clientID, h)
	return ok
}

// ConsensusHeights lists the heights stored by a client on chain i (ascending).
func (w *World) ConsensusHeights(i int, clientID string) []clienttypes.Height {
	var out []clienttypes.Height
	store := w.W.Chains[i].App.IBCKeeper.ClientKeeper.ClientStore(w.CS[i].Ctx, clientID)
	ibctm.IterateConsensusStateAscending(store, func(h exported.Height) bool {
		out = append(out, clienttypes.NewHeight(h.GetRevisionNumber(), h.GetRevisionHeight()))
		return false
	})
	return out
}

// UpdateClient submits the honest header of chain `of` at height h to client clientID on chain `on`,
// trusting the given stored height.
func (w *World) UpdateClient(on int, clientID string, of int, h int64, trusted clienttypes.Height) Result {
	hdr, ok := w.HonestHeader(of, h, trusted)
	if !ok {
		return Result{Class: ERR, Code: "harness/no-header"}
	}
	msg, err := clienttypes.NewMsgUpdateClient(clientID, hdr, Signer)
	if err != nil {
		panic(err)
	}
	return w.Tx(on, msg)
}

// UpdateLatest updates the client to `of`'s executing height trusting the client's latest height.
func (w *World) UpdateLatest(on int, clientID string, of int) Result {
	return w.UpdateClient(on, clientID, of, w.CS[of].H(), w.ClientLatest(on, clientID))
}

// Link describes one client/connection/channel path between chains A and B.
type Link struct {
	A, B             int
	ClientA, ClientB string // client on A (of B), client on B (of A)
	ConnA, ConnB     string
}

// ChanEnd pair.
type ChanPair struct {
	PortA, ChanA, PortB, ChanB string
	Order                      channeltypes.Order
	Version                    string
}

// Sync commits `of` and updates the client on `on` to of's new height. Both must succeed.
func (w *World) Sync(on int, clientID string, of int) {
	w.Commit(of, BlockStep)
	// destination clock must not lag so far that the header looks like it is from the future
	for w.CS[of].TimeNs() >= w.CS[on].TimeNs()+int64(MaxClockDrift) {
		w.Commit(on, BlockStep)
	}
	if r := w.UpdateLatest(on, clientID, of); r.Class != OK {
		panic(fmt.Sprintf("sync: update client failed: %s %v", r, r.Err))
	}
}

// MustOK panics when a bring-up step fails (harness defect, not a property violation).
func MustOK(what string, r Result) {
	if r.Class != OK {
		panic(fmt.Sprintf("bring-up step %s failed: %s %v", what, r, r.Err))
	}
}

// SetupClients creates the two tendermint clients of a link.
func (w *World) SetupClients(a, b int) *Link {
	l := &Link{A: a, B: b}
	var r Result
	l.ClientA, r = w.CreateClient(a, b)
	MustOK("create client A", r)
	l.ClientB, r = w.CreateClient(b, a)
	MustOK("create client B", r)
	return l
}

// ProofHeightFor returns the latest height of the client, to be used as proof height.
func (w *World) latestProof(on int, clientID string, of int, store string, key []byte) ([]byte, clienttypes.Height) {
	ph := w.ClientLatest(on, clientID)
	proof, ok := w.ProofAt(of, int64(ph.RevisionHeight), store, key)
	if !ok {
		panic(fmt.Sprintf("no committed state of chain %d below height %d", of, ph.RevisionHeight))
	}
	return proof, ph
}

// SetupConnection runs the honest four-step connection handshake.
func (w *World) SetupConnection(l *Link, delay uint64) {
	a, b := l.A, l.B
	r := w.Tx(a, connectiontypes.NewMsgConnectionOpenInit(l.ClientA, l.ClientB, Prefix, ibctesting.DefaultOpenInitVersion, delay, Signer))
	MustOK("conn init", r)
	l.ConnA = connIDFromEvents(r.Events)
	w.Sync(b, l.ClientB, a)
	proof, ph := w.latestProof(b, l.ClientB, a, "ibc", host.ConnectionKey(l.ConnA))
	r = w.Tx(b, connectiontypes.NewMsgConnectionOpenTry(l.ClientB, l.ConnA, l.ClientA, Prefix, []*connectiontypes.Version{ibctesting.ConnectionVersion}, delay, proof, ph, Signer))
	MustOK("conn try", r)
	l.ConnB = connIDFromEvents(r.Events)
	w.Sync(a, l.ClientA, b)
	proof, ph = w.latestProof(a, l.ClientA, b, "ibc", host.ConnectionKey(l.ConnB))
	MustOK("conn ack", w.Tx(a, connectiontypes.NewMsgConnectionOpenAck(l.ConnA, l.ConnB, proof, ph, ibctesting.ConnectionVersion, Signer)))
	w.Sync(b, l.ClientB, a)
	proof, ph = w.latestProof(b, l.ClientB, a, "ibc", host.ConnectionKey(l.ConnA))
	MustOK("conn confirm", w.Tx(b, connectiontypes.NewMsgConnectionOpenConfirm(l.ConnB, proof, ph, Signer)))
}

func attr(evs []abci.Event, typ, key string) string {
	for _, e := range evs {
		if e.Type != typ {
			continue
		}
		for _, a := range e.Attributes {
			if a.Key == key {
				return a.Value
			}
		}
	}
	return ""
}

func connIDFromEvents(evs []abci.Event) string {
	for _, t := range []string{connectiontypes.EventTypeConnectionOpenInit, connectiontypes.EventTypeConnectionOpenTry} {
		if v := attr(evs, t, connectiontypes.AttributeKeyConnectionID); v != "" {
			return v
		}
	}
	panic("no connection id in events")
}

// SetupChannel runs the honest four-step channel handshake.
func (w *World) SetupChannel(l *Link, portA, portB, version string, order channeltypes.Order) *ChanPair {
	a, b := l.A, l.B
	cp := &ChanPair{PortA: portA, PortB: portB, Order: order, Version: version}
	r := w.Tx(a, channeltypes.NewMsgChannelOpenInit(portA, version, order, []string{l.ConnA}, portB, Signer))
	MustOK("chan init", r)
	var ir channeltypes.MsgChannelOpenInitResponse
	mustUnmarshal(r.Resp, &ir)
	cp.ChanA = ir.ChannelId
	cp.Version = ir.Version
	w.Sync(b, l.ClientB, a)
	proof, ph := w.latestProof(b, l.ClientB, a, "ibc", host.ChannelKey(portA, cp.ChanA))
	r = w.Tx(b, channeltypes.NewMsgChannelOpenTry(portB, cp.Version, order, []string{l.ConnB}, portA, cp.ChanA, cp.Version, proof, ph, Signer))
	MustOK("chan try", r)
	var tr channeltypes.MsgChannelOpenTryResponse
	mustUnmarshal(r.Resp, &tr)
	cp.ChanB = tr.ChannelId
	w.Sync(a, l.ClientA, b)
	proof, ph = w.latestProof(a, l.ClientA, b, "ibc", host.ChannelKey(portB, cp.ChanB))
	MustOK("chan ack", w.Tx(a, channeltypes.NewMsgChannelOpenAck(portA, cp.ChanA, cp.ChanB, tr.Version, proof, ph, Signer)))
	w.Sync(b, l.ClientB, a)
	proof, ph = w.latestProof(b, l.ClientB, a, "ibc", host.ChannelKey(portA, cp.ChanA))
	MustOK("chan confirm", w.Tx(b, channeltypes.NewMsgChannelOpenConfirm(portB, cp.ChanB, proof, ph, Signer)))
	return cp
}

// RegisterCounterparties registers the v2 counterparties of the link's clients (the signer must be the creator).
func (w *World) RegisterCounterparties(l *Link) {
	MustOK("register cp A", w.Tx(l.A, clientv2types.NewMsgRegisterCounterparty(l.ClientA, [][]byte{[]byte("ibc"), []byte("")}, l.ClientB, Signer)))
	MustOK("register cp B", w.Tx(l.B, clientv2types.NewMsgRegisterCounterparty(l.ClientB, [][]byte{[]byte("ibc"), []byte("")}, l.ClientA, Signer)))
}

func mustUnmarshal(bz []byte, m proto.Message) {
	if err := proto.Unmarshal(bz, m); err != nil {
		panic(err)
	}
}

// ---- v1 packets ------------------------------------------------------------------------------

// SendV1 makes the mock application on chain i send a packet through the channel keeper.
func (w *World) SendV1(i int, port, channel string, th clienttypes.Height, tt uint64, data []byte) (uint64, Result) {
	var seq uint64
	r := w.Do(i, func(ctx sdk.Context) error {
		var err error
		seq, err = w.W.Chains[i].App.IBCKeeper.ChannelKeeper.SendPacket(ctx, port, channel, th, tt, data)
		return err
	})
	return seq, r
}

// RecvV1 relays packet p (sent by chain src) to chain dst with a proof at consensus height ph of client on dst.
func (w *World) RecvV1(dst, src int, p channeltypes.Packet, ph clienttypes.Height) Result {
	proof, ok := w.ProofAt(src, int64(ph.RevisionHeight), "ibc", host.PacketCommitmentKey(p.SourcePort, p.SourceChannel, p.Sequence))
	if !ok {
		return Result{Class: ERR, Code: "harness/no-proof"}
	}
	r := w.Tx(dst, channeltypes.NewMsgRecvPacket(p, proof, ph, Signer))
	return classifyV1(r, func(bz []byte) channeltypes.ResponseResultType {
		var resp channeltypes.MsgRecvPacketResponse
		mustUnmarshal(bz, &resp)
		return resp.Result
	})
}

func classifyV1(r Result, get func([]byte) channeltypes.ResponseResultType) Result {
	if r.Class == OK && get(r.Resp) == channeltypes.NOOP {
		r.Class = NOOP
	}
	return r
}

// AckV1 relays the acknowledgement of p (received on chain dst) back to chain src.
func (w *World) AckV1(src, dst int, p channeltypes.Packet, ack []byte, ph clienttypes.Height) Result {
	proof, ok := w.ProofAt(dst, int64(ph.RevisionHeight), "ibc", host.PacketAcknowledgementKey(p.DestinationPort, p.DestinationChannel, p.Sequence))
	if !ok {
		return Result{Class: ERR, Code: "harness/no-proof"}
	}
	r := w.Tx(src, channeltypes.NewMsgAcknowledgement(p, ack, proof, ph, Signer))
	return classifyV1(r, func(bz []byte) channeltypes.ResponseResultType {
		var resp channeltypes.MsgAcknowledgementResponse
		mustUnmarshal(bz, &resp)
		return resp.Result
	})
}

// TimeoutV1 relays a timeout of p to chain src with a proof of non-receipt from dst at consensus height ph.
func (w *World) TimeoutV1(src, dst int, p channeltypes.Packet, order channeltypes.Order, ph clienttypes.Height) Result {
	snap := w.SnapAt(dst, int64(ph.RevisionHeight))
	if snap == nil {
		return Result{Class: ERR, Code: "harness/no-proof"}
	}
	key, nextRecv := timeoutKey(snap, p, order)
	r := w.Tx(src, channeltypes.NewMsgTimeout(p, nextRecv, snap.Proof("ibc", key), ph, Signer))
	return classifyV1(r, func(bz []byte) channeltypes.ResponseResultType {
		var resp channeltypes.MsgTimeoutResponse
		mustUnmarshal(bz, &resp)
		return resp.Result
	})
}

func timeoutKey(snap *Snapshot, p channeltypes.Packet, order channeltypes.Order) ([]byte, uint64) {
	nextRecv := uint64(1)
	if bz := snap.Get("ibc", host.NextSequenceRecvKey(p.DestinationPort, p.DestinationChannel)); len(bz) == 8 {
		nextRecv = sdk.BigEndianToUint64(bz)
	}
	if order == channeltypes.ORDERED {
		return host.NextSequenceRecvKey(p.DestinationPort, p.DestinationChannel), nextRecv
	}
	return host.PacketReceiptKey(p.DestinationPort, p.DestinationChannel, p.Sequence), nextRecv
}

// TimeoutOnCloseV1 relays a timeout-on-close of p.
func (w *World) TimeoutOnCloseV1(src, dst int, p channeltypes.Packet, order channeltypes.Order, ph clienttypes.Height) Result {
	snap := w.SnapAt(dst, int64(ph.RevisionHeight))
	if snap == nil {
		return Result{Class: ERR, Code: "harness/no-proof"}
	}
	key, nextRecv := timeoutKey(snap, p, order)
	closeProof := snap.Proof("ibc", host.ChannelKey(p.DestinationPort, p.DestinationChannel))
	r := w.Tx(src, channeltypes.NewMsgTimeoutOnClose(p, nextRecv, snap.Proof("ibc", key), closeProof, ph, Signer))
	return classifyV1(r, func(bz []byte) channeltypes.ResponseResultType {
		var resp channeltypes.MsgTimeoutOnCloseResponse
		mustUnmarshal(bz, &resp)
		return resp.Result
	})
}

// ---- v2 packets ------------------------------------------------------------------------------

// SendV2 delivers MsgSendPacket on chain i.
func (w *World) SendV2(i int, sourceClient string, timeoutSecs uint64, signer string, payloads ...channeltypesv2.Payload) (uint64, Result) {
	r := w.Tx(i, channeltypesv2.NewMsgSendPacket(sourceClient, timeoutSecs, signer, payloads...))
	if r.Class != OK {
		return 0, r
	}
	var resp channeltypesv2.MsgSendPacketResponse
	mustUnmarshal(r.Resp, &resp)
	return resp.Sequence, r
}

// RecvV2 relays a v2 packet.
func (w *World) RecvV2(dst, src int, p channeltypesv2.Packet, ph clienttypes.Height) Result {
	proof, ok := w.ProofAt(src, int64(ph.RevisionHeight), "ibc", hostv2.PacketCommitmentKey(p.SourceClient, p.Sequence))
	if !ok {
		return Result{Class: ERR, Code: "harness/no-proof"}
	}
	r := w.Tx(dst, channeltypesv2.NewMsgRecvPacket(p, proof, ph, Signer))
	if r.Class == OK {
		var resp channeltypesv2.MsgRecvPacketResponse
		mustUnmarshal(r.Resp, &resp)
		if resp.Result == channeltypesv2.NOOP {
			r.Class = NOOP
		}
	}
	return r
}

// AckV2 relays a v2 acknowledgement.
func (w *World) AckV2(src, dst int, p channeltypesv2.Packet, ack channeltypesv2.Acknowledgement, ph clienttypes.Height) Result {
	proof, ok := w.ProofAt(dst, int64(ph.RevisionHeight), "ibc", hostv2.PacketAcknowledgementKey(p.DestinationClient, p.Sequence))
	if !ok {
		return Result{Class: ERR, Code: "harness/no-proof"}
	}
	r := w.Tx(src, channeltypesv2.NewMsgAcknowledgement(p, ack, proof, ph, Signer))
	if r.Class == OK {
		var resp channeltypesv2.MsgAcknowledgementResponse
		mustUnmarshal(r.Resp, &resp)
		if resp.Result == channeltypesv2.NOOP {
			r.Class = NOOP
		}
	}
	return r
}

// TimeoutV2 relays a v2 timeout.
func (w *World) TimeoutV2(src, dst int, p channeltypesv2.Packet, ph clienttypes.Height) Result {
	proof, ok := w.ProofAt(dst, int64(ph.RevisionHeight), "ibc", hostv2.PacketReceiptKey(p.DestinationClient, p.Sequence))
	if !ok {
		return Result{Class: ERR, Code: "harness/no-proof"}
	}
	r := w.Tx(src, channeltypesv2.NewMsgTimeout(p, proof, ph, Signer))
	if r.Class == OK {
		var resp channeltypesv2.MsgTimeoutResponse
		mustUnmarshal(r.Resp, &resp)
		if resp.Result == channeltypesv2.NOOP {
			r.Class = NOOP
		}
	}
	return r
}

// ---- mock application observers ---------------------------------------------------------------

// Packet data understood by the observing v1 mock application in addition to the mock module's own constants.
const (
	WriteInRecvOK    = "verif: write ack inside recv, answer success"
	WriteInRecvAsync = "verif: write ack inside recv, answer nothing"
	WriteInRecvFail  = "verif: write ack inside recv, answer failure"
)

// MockBehaviour lets a scenario decide what the mock v1 application answers on receive.
type MockBehaviour func(ctx sdk.Context, packet channeltypes.Packet) exported.Acknowledgement

// InstallMockObservers makes the v1 mock application and both v2 mock applications of every
// chain log their packet callbacks into the observer of the running transaction.
func (wk *Worker) InstallMockObservers() {
	for _, ch := range wk.Chains {
		chain := ch
		app := ch.App.IBCMockModule.IBCApp
		app.OnRecvPacket = func(ctx sdk.Context, _ string, p channeltypes.Packet, _ sdk.AccAddress) exported.Acknowledgement {
			wk.Observe(Event{Kind: "recv", ID: p.DestinationPort + "/" + p.DestinationChannel, Seq: p.Sequence, Data: string(p.Data)})
			if b, ok := wk.Hook.(MockBehaviour); ok && b != nil {
				return b(ctx, p)
			}
			switch string(p.Data) {
			case string(ibcmock.MockAsyncPacketData):
				return nil
			case string(ibcmock.MockFailPacketData):
				return ibcmock.MockFailAcknowledgement
			case WriteInRecvOK, WriteInRecvAsync, WriteInRecvFail:
				// an application (or middleware) that writes the acknowledgement itself while it is still inside the
				// receive callback, and then answers success / nothing / failure
				if err := chain.App.IBCKeeper.ChannelKeeper.WriteAcknowledgement(ctx, p, channeltypes.NewResultAcknowledgement([]byte("written-inside-recv"))); err != nil {
					wk.Observe(Event{Kind: "recv-write-refused", ID: p.DestinationPort + "/" + p.DestinationChannel, Seq: p.Sequence})
				}
				switch string(p.Data) {
				case WriteInRecvAsync:
					return nil
				case WriteInRecvFail:
					return ibcmock.MockFailAcknowledgement
				}
			}
			return ibcmock.MockAcknowledgement
		}
		app.OnAcknowledgementPacket = func(_ sdk.Context, _ string, p channeltypes.Packet, ack []byte, _ sdk.AccAddress) error {
			wk.Observe(Event{Kind: "ack", ID: p.SourcePort + "/" + p.SourceChannel, Seq: p.Sequence, Data: string(ack)})
			return nil
		}
		app.OnTimeoutPacket = func(_ sdk.Context, _ string, p channeltypes.Packet, _ sdk.AccAddress) error {
			wk.Observe(Event{Kind: "timeout", ID: p.SourcePort + "/" + p.SourceChannel, Seq: p.Sequence})
			return nil
		}
		for _, m := range []mockv2.IBCModule{ch.App.MockModuleV2A, ch.App.MockModuleV2B} {
			v2 := m.IBCApp
			v2.OnSendPacket = func(_ sdk.Context, src, _ string, seq uint64, pl channeltypesv2.Payload, _ sdk.AccAddress) error {
				wk.Observe(Event{Kind: "send2", ID: src, Seq: seq, Data: pl.SourcePort})
				return nil
			}
			v2.OnRecvPacket = func(_ sdk.Context, _, dst string, seq uint64, pl channeltypesv2.Payload, _ sdk.AccAddress) channeltypesv2.RecvPacketResult {
				wk.Observe(Event{Kind: "recv2", ID: dst, Seq: seq, Data: pl.DestinationPort + ":" + string(pl.Value)})
				switch string(pl.Value) {
				case string(ibcmock.MockAsyncPacketData):
					return channeltypesv2.RecvPacketResult{Status: channeltypesv2.PacketStatus_Async}
				case string(ibcmock.MockFailPacketData):
					return channeltypesv2.RecvPacketResult{Status: channeltypesv2.PacketStatus_Failure}
				}
				return mockv2.MockRecvPacketResult
			}
			v2.OnAcknowledgementPacket = func(_ sdk.Context, src, _ string, seq uint64, pl channeltypesv2.Payload, ack []byte, _ sdk.AccAddress) error {
				wk.Observe(Event{Kind: "ack2", ID: src, Seq: seq, Data: pl.SourcePort + ":" + string(ack)})
				return nil
			}
			v2.OnTimeoutPacket = func(_ sdk.Context, src, _ string, seq uint64, pl channeltypesv2.Payload, _ sdk.AccAddress) error {
				wk.Observe(Event{Kind: "timeout2", ID: src, Seq: seq, Data: pl.SourcePort})
				return nil
			}
		}
	}
}
