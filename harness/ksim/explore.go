package ksim

import (
	"encoding/json"
	"fmt"
	"os"
	"runtime"
	"sort"
	"strconv"
	"strings"
	"sync"
	"sync/atomic"

	"verif/harness/core"
)

// Op is one transition label: a kind plus small integer arguments (replayable, serialisable).
type Op struct {
	K string `json:"k"`
	A []int  `json:"a,omitempty"`
}

func (o Op) String() string {
	if len(o.A) == 0 {
		return o.K
	}
	parts := make([]string, len(o.A))
	for i, a := range o.A {
		parts[i] = fmt.Sprint(a)
	}
	return o.K + "(" + strings.Join(parts, ",") + ")"
}

// Fail is an oracle failure.
type Fail struct {
	Key  string // stable identifier (oracle name + discriminating detail), used for de-duplication / known findings
	Text string
}

// Scenario is one explicit-state model-checking problem over real handlers.
type Scenario interface {
	// Chains is the number of chains a worker needs.
	Chains() int
	// Init builds the (deterministic) root world on a fresh worker.
	Init(wk *Worker) *World
	// Ops lists the transitions enabled in w (simplest first).
	Ops(w *World) []Op
	// Apply executes op on w (mutating it) and returns the result of the delivered message.
	Apply(w *World, op Op) Result
	// Step is the transition oracle (pre is unchanged by Apply, which ran on a fork).
	Step(pre *World, op Op, r Result, post *World) *Fail
	// Invariant is the state oracle, evaluated on every new state.
	Invariant(w *World) *Fail
	// Stores lists the stores covered by the state key; Filter may restrict keys.
	Stores() []string
	Filter(store string, key []byte) bool
}

// Base provides defaults for optional Scenario methods.
type Base struct{}

func (Base) Step(*World, Op, Result, *World) *Fail { return nil }
func (Base) Invariant(*World) *Fail                { return nil }
func (Base) Stores() []string                      { return AllStores }
func (Base) Filter(string, []byte) bool            { return true }

type node struct {
	parent *node
	op     Op
	depth  int
	key    [32]byte
}

func (n *node) history() []Op {
	out := make([]Op, n.depth)
	for m := n; m != nil && m.depth > 0; m = m.parent {
		out[m.depth-1] = m.op
	}
	return out
}

// Config bounds an exploration.
type Config struct {
	Name      string // part name (recorded in replay artefacts)
	MaxDepth  int
	MaxStates int // 0 = unbounded
	Workers   int // 0 = min(NumCPU, 8)
}

// Stats summarises an exploration.
type Stats struct {
	States, Transitions, Replayed int64
	DepthDone                     int
	Complete                      bool   // frontier exhausted (the reachable space within the alphabet is fully explored)
	Samples                       [][]Op // a few histories actually explored (deepest level reached)
}

// Explore runs a level-synchronous BFS of sc, evaluating the oracles on every transition and state.
func Explore(c *core.C, sc Scenario, cfg Config) Stats {
	nw := cfg.Workers
	if nw == 0 {
		nw = min(runtime.NumCPU(), 8)
	}
	if v, err := strconv.Atoi(os.Getenv("VERIF_WORKERS")); err == nil && v > 0 {
		nw = v
	}
	type wctx struct {
		wk   *Worker
		root *World
	}
	workers := make([]*wctx, nw)
	pool := workerPool(c, sc.Chains(), nw)
	var wg sync.WaitGroup
	for i := range workers {
		wg.Add(1)
		go func(i int) {
			defer wg.Done()
			wk := pool[i]
			root := sc.Init(wk)
			root.Flatten()
			workers[i] = &wctx{wk: wk, root: root}
		}(i)
	}
	wg.Wait()
	// self-check of the snapshot shortcut: the app hash computed from bare IAVL trees + commit info
	// must equal what a complete rootmulti.Store commits for the same content
	for ci := range workers[0].root.CS {
		for _, bl := range workers[0].root.CS[ci].Blocks {
			if bl.After != nil && string(bl.After.RootmultiAppHash()) != string(bl.After.AppHash) {
				c.Broken("snapshot app hash differs from rootmulti commit hash (chain %d height %d)", ci, bl.Height)
				return Stats{}
			}
		}
	}
	rootKey := workers[0].root.Key(sc.Stores(), sc.Filter)
	for i, w := range workers {
		if k := w.root.Key(sc.Stores(), sc.Filter); k != rootKey {
			c.Broken("root worlds of workers 0 and %d differ (harness nondeterminism)", i)
			return Stats{}
		}
	}
	visited := newVisited()
	visited.LoadOrStore(rootKey)
	var st Stats
	st.States = 1
	if f := sc.Invariant(workers[0].root); f != nil {
		report(c, cfg.Name, f, nil)
	}
	frontier := []*node{{key: rootKey}}
	var lastLevel []*node
	var stop atomic.Bool
	for depth := 0; depth < cfg.MaxDepth && len(frontier) > 0 && !stop.Load(); depth++ {
		var mu sync.Mutex
		var next []*node
		jobs := make(chan *node, 256)
		var unfinished atomic.Int64
		for i := range workers {
			wg.Add(1)
			go func(wc *wctx) {
				defer wg.Done()
				for n := range jobs {
					if stop.Load() {
						unfinished.Add(1)
						continue
					}
					hist := n.history()
					var local []*node
					perr := core.Catch(func() {
						w := wc.root.Fork()
						for _, op := range hist {
							sc.Apply(w, op)
						}
						if len(hist) > 0 {
							atomic.AddInt64(&st.Replayed, 1)
							if k := w.Key(sc.Stores(), sc.Filter); k != n.key {
								c.Broken("replay divergence: history %v reaches a different state than when it was discovered", hist)
								stop.Store(true)
								return
							}
						}
						for _, op := range sc.Ops(w) {
							child := w.Fork()
							r := sc.Apply(child, op)
							atomic.AddInt64(&st.Transitions, 1)
							c.Hist("outcomes", op.K+":"+string(r.Class))
							if r.Class == ERR || r.Class == PANIC {
								c.Hist("error_classes", op.K+":"+r.String())
							}
							if f := sc.Step(w, op, r, child); f != nil {
								report(c, cfg.Name, f, append(append([]Op{}, hist...), op))
							}
							k := child.Key(sc.Stores(), sc.Filter)
							if dup := visited.LoadOrStore(k); dup {
								continue
							}
							atomic.AddInt64(&st.States, 1)
							if f := sc.Invariant(child); f != nil {
								report(c, cfg.Name, f, append(append([]Op{}, hist...), op))
							}
							local = append(local, &node{parent: n, op: op, depth: n.depth + 1, key: k})
						}
					})
					if perr != "" {
						c.Broken("explorer panic at history %v: %s", hist, perr)
						stop.Store(true)
					}
					mu.Lock()
					next = append(next, local...)
					mu.Unlock()
					if c.TimeUp() || (cfg.MaxStates > 0 && atomic.LoadInt64(&st.States) >= int64(cfg.MaxStates)) || c.Violations() > 5 {
						stop.Store(true)
					}
				}
			}(workers[i])
		}
		for _, n := range frontier {
			jobs <- n
		}
		close(jobs)
		wg.Wait()
		if stop.Load() {
			if unfinished.Load() == 0 && len(next) == 0 {
				st.DepthDone = depth + 1
			}
			frontier = next
			break
		}
		st.DepthDone = depth + 1
		if len(next) > 0 {
			lastLevel = next
		}
		// deterministic order of the next level (alphabet order within parent order)
		sort.SliceStable(next, func(i, j int) bool { return string(next[i].key[:]) < string(next[j].key[:]) })
		frontier = next
	}
	st.Complete = len(frontier) == 0 && !stop.Load()
	if lastLevel != nil {
		for i := 0; i < len(lastLevel) && i < 2; i++ {
			st.Samples = append(st.Samples, lastLevel[i*(len(lastLevel)-1)].history())
		}
	}
	return st
}

func report(c *core.C, part string, f *Fail, hist []Op) {
	c.Violation(f.Key, f.Text, map[string]any{"part": part, "history": hist, "history_text": opsText(hist)})
}

func opsText(h []Op) string {
	s := make([]string, len(h))
	for i, o := range h {
		s[i] = o.String()
	}
	return strings.Join(s, " ; ")
}

// Part is one exploration of a multi-part check.
type Part struct {
	Name  string
	Sc    Scenario
	Cfg   Config
	Share float64 // share of the remaining time budget this part may use (0 = all)
}

// RunParts explores every part in turn and records aggregated coverage plus a per-part summary.
func RunParts(c *core.C, parts []Part, sample [][]Op) {
	if ReplayParts(c, parts) {
		return
	}
	var tot Stats
	var realSamples [][]Op
	var summaries []map[string]any
	allDone := true
	maxDepth := 0
	for i, p := range parts {
		share := p.Share
		if share == 0 {
			share = 1.0 / float64(len(parts)-i)
		}
		c.SubBudget(share)
		before := c.Capped()
		p.Cfg.Name = p.Name
		st := Explore(c, p.Sc, p.Cfg)
		c.SubBudget(0)
		tot.States += st.States
		tot.Transitions += st.Transitions
		tot.Replayed += st.Replayed
		if len(realSamples) < 6 {
			realSamples = append(realSamples, st.Samples...)
		}
		done := st.Complete || st.DepthDone >= p.Cfg.MaxDepth
		if !done {
			allDone = false
		}
		if p.Cfg.MaxDepth > maxDepth {
			maxDepth = p.Cfg.MaxDepth
		}
		summaries = append(summaries, map[string]any{"part": p.Name, "states": st.States, "transitions": st.Transitions,
			"max_depth": p.Cfg.MaxDepth, "depth_completed": st.DepthDone, "state_space_closed": st.Complete, "hit_time_cap": !before && c.Capped() && !done})
		fmt.Printf("part %s: states=%d transitions=%d depth_completed=%d/%d closed=%v\n", p.Name, st.States, st.Transitions, st.DepthDone, p.Cfg.MaxDepth, st.Complete)
		if c.Violations() > 5 {
			break
		}
	}
	c.Set("states", int(tot.States))
	c.Set("transitions", int(tot.Transitions))
	c.Set("traces_validated_against_impl", int(tot.Replayed))
	c.Set("traces_note", "every transition executes the real ibc-go message handlers; in addition every expanded state is re-materialised from the root world by replaying its shortest history (on any worker's application instances) and must reach the byte-identical state key")
	c.Set("parts", summaries)
	c.Set("max_depth", maxDepth)
	c.Set("exhaustive", allDone)
	if len(realSamples) > 0 {
		sample = realSamples
	}
	for _, h := range sample {
		c.Sample(opsText(h))
	}
}

// Record writes the standard model-checking coverage keys.
func Record(c *core.C, st Stats, cfg Config, sample [][]Op) {
	c.Set("states", int(st.States))
	c.Set("transitions", int(st.Transitions))
	c.Set("traces_validated_against_impl", int(st.Replayed))
	c.Set("traces_note", "every transition executes the real ibc-go message handlers; in addition every expanded state is re-materialised from the root world by replaying its shortest history (possibly on another worker's application instances) and must reach the byte-identical state key")
	c.Set("max_depth", cfg.MaxDepth)
	c.Set("depth_completed", st.DepthDone)
	c.Set("state_space_closed", st.Complete)
	c.Set("exhaustive", !c.Capped() && (st.Complete || st.DepthDone >= cfg.MaxDepth))
	for _, h := range sample {
		c.Sample(opsText(h))
	}
}

// ReplayParts re-executes a recorded violation (./run <id> --replay <file>) on the part that found it.
// It returns true when the run was a replay.
func ReplayParts(c *core.C, parts []Part) bool {
	if c.Replay == "" {
		return false
	}
	var art struct {
		Part    string `json:"part"`
		History []Op   `json:"history"`
	}
	if err := c.LoadReplay(&art); err != nil {
		c.Broken("cannot load replay: %v", err)
		return true
	}
	var sc Scenario
	for _, p := range parts {
		if p.Name == art.Part {
			sc = p.Sc
		}
	}
	if sc == nil {
		c.Broken("replay names unknown part %q", art.Part)
		return true
	}
	wk := NewWorker(c.T, sc.Chains())
	w := sc.Init(wk)
	w.Flatten()
	for i, op := range art.History {
		pre := w
		w = w.Fork()
		r := sc.Apply(w, op)
		fmt.Printf("replay step %d: %s -> %s\n", i+1, op, r)
		if f := sc.Step(pre, op, r, w); f != nil {
			report(c, art.Part, f, art.History[:i+1])
		}
		if f := sc.Invariant(w); f != nil {
			report(c, art.Part, f, art.History[:i+1])
		}
	}
	bz, _ := json.Marshal(art.History)
	c.Set("replayed_history", string(bz))
	c.Set("states", len(art.History)+1)
	c.Set("transitions", len(art.History))
	return true
}

// visitedSet is a sharded pointer-free set of state keys (cheap for the garbage collector).
type visitedSet struct {
	shards [64]struct {
		mu sync.Mutex
		m  map[[32]byte]struct{}
	}
}

func newVisited() *visitedSet {
	v := &visitedSet{}
	for i := range v.shards {
		v.shards[i].m = map[[32]byte]struct{}{}
	}
	return v
}

// LoadOrStore inserts k and reports whether it was already present.
func (v *visitedSet) LoadOrStore(k [32]byte) bool {
	sh := &v.shards[k[0]&63]
	sh.mu.Lock()
	_, dup := sh.m[k]
	if !dup {
		sh.m[k] = struct{}{}
	}
	sh.mu.Unlock()
	return dup
}

var (
	poolMu sync.Mutex
	pools  = map[int][]*Worker{}
)

// workerPool returns n workers with the given number of chains, creating the missing ones
// (application instances are expensive to build and are reused by every part of a check).
func workerPool(c *core.C, chains, n int) []*Worker {
	poolMu.Lock()
	defer poolMu.Unlock()
	have := pools[chains]
	var wg sync.WaitGroup
	var mu sync.Mutex
	for i := len(have); i < n; i++ {
		wg.Add(1)
		go func() {
			defer wg.Done()
			wk := NewWorker(c.T, chains)
			mu.Lock()
			have = append(have, wk)
			mu.Unlock()
		}()
	}
	wg.Wait()
	pools[chains] = have
	return have[:n]
}
