package ksim

import (
	"testing"
	"time"

	clienttypes "github.com/cosmos/ibc-go/v11/modules/core/02-client/types"
	channeltypes "github.com/cosmos/ibc-go/v11/modules/core/04-channel/types"
	ibcmock "github.com/cosmos/ibc-go/v11/testing/mock"
)

func TestSmoke(t *testing.T) {
	t0 := time.Now()
	wk := NewWorker(t, 2)
	wk.InstallMockObservers()
	w := wk.Root()
	t.Log("root", time.Since(t0))
	t0 = time.Now()
	l := w.SetupClients(0, 1)
	w.SetupConnection(l, 0)
	cp := w.SetupChannel(l, "mock", "mock", ibcmock.Version, channeltypes.UNORDERED)
	t.Log("bringup", time.Since(t0), l, cp)
	t0 = time.Now()
	seq, r := w.SendV1(0, cp.PortA, cp.ChanA, clienttypes.NewHeight(1, 1000), 0, ibcmock.MockPacketData)
	t.Log("send", seq, r)
	p := channeltypes.NewPacket(ibcmock.MockPacketData, seq, cp.PortA, cp.ChanA, cp.PortB, cp.ChanB, clienttypes.NewHeight(1, 1000), 0)
	w.Sync(1, l.ClientB, 0)
	f := w.Fork()
	r = f.RecvV1(1, 0, p, f.ClientLatest(1, l.ClientB))
	t.Log("recv", r, r.Err, f.Obs)
	r = f.RecvV1(1, 0, p, f.ClientLatest(1, l.ClientB))
	t.Log("recv dup", r, r.Err, f.Obs)
	t.Log("orig obs", w.Obs, time.Since(t0))
	k1 := w.Key(AllStores, nil)
	k2 := f.Key(AllStores, nil)
	t.Logf("%x %x", k1[:4], k2[:4])
	t0 = time.Now()
	for i := 0; i < 1000; i++ {
		g := w.Fork()
		g.RecvV1(1, 0, p, g.ClientLatest(1, l.ClientB))
		g.Key(AllStores, nil)
	}
	t.Log("1000 fork+recv+key", time.Since(t0))
}
