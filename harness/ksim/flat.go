package ksim

import (
	"bytes"
	"crypto/sha256"
	"sort"

	"github.com/cosmos/cosmos-sdk/store/v2/cachekv"
	"github.com/cosmos/cosmos-sdk/store/v2/cachemulti"
	storetypes "github.com/cosmos/cosmos-sdk/store/v2/types"
)

// The harness never lets handlers touch the application's IAVL/MemDB stores (their iterators
// are slow and they cannot be forked). Instead every chain context sits on
//
//	flatStore (immutable sorted copy of the store at the root)  <-  ovStore (world overlay)  <-  ovStore (transaction overlay)
//
// A world state is then "root base + small overlay", so forking is a copy of the overlay,
// the canonical state key is a hash of the normalised overlay, and transaction atomicity
// is "merge the transaction overlay or drop it".

type kvPair struct{ k, v []byte }

// reader is the read side shared by flatStore and ovStore.
type reader interface {
	Get(key []byte) []byte
	rangeKV(start, end []byte) []kvPair // ascending, materialised
}

// ---- immutable base ---------------------------------------------------------------------------

type flatStore struct{ kv []kvPair }

func newFlat(src storetypes.KVStore) *flatStore {
	f := &flatStore{}
	it := src.Iterator(nil, nil)
	defer it.Close()
	for ; it.Valid(); it.Next() {
		f.kv = append(f.kv, kvPair{append([]byte{}, it.Key()...), append([]byte{}, it.Value()...)})
	}
	return f
}

func (f *flatStore) find(key []byte) (int, bool) {
	i := sort.Search(len(f.kv), func(i int) bool { return bytes.Compare(f.kv[i].k, key) >= 0 })
	return i, i < len(f.kv) && bytes.Equal(f.kv[i].k, key)
}

func (f *flatStore) Get(key []byte) []byte {
	if i, ok := f.find(key); ok {
		return f.kv[i].v
	}
	return nil
}

func (f *flatStore) rangeKV(start, end []byte) []kvPair {
	lo := 0
	if start != nil {
		lo, _ = f.find(start)
	}
	hi := len(f.kv)
	if end != nil {
		hi, _ = f.find(end)
	}
	if hi < lo {
		hi = lo
	}
	return f.kv[lo:hi]
}

// ---- overlay ----------------------------------------------------------------------------------

type ovEntry struct {
	v   []byte
	del bool
}

// ovStore is a mutable overlay over a reader; it implements storetypes.KVStore.
type ovStore struct {
	parent reader
	dirty  map[string]ovEntry
}

var _ storetypes.KVStore = (*ovStore)(nil)

func newOv(parent reader) *ovStore { return &ovStore{parent: parent, dirty: map[string]ovEntry{}} }

func (s *ovStore) clone() *ovStore {
	n := &ovStore{parent: s.parent, dirty: make(map[string]ovEntry, len(s.dirty)+8)}
	for k, v := range s.dirty {
		n.dirty[k] = v
	}
	return n
}

func (s *ovStore) GetStoreType() storetypes.StoreType { return storetypes.StoreTypeDB }
func (s *ovStore) CacheWrap() storetypes.CacheWrap    { return cachekv.NewStore(s) }

func (s *ovStore) Get(key []byte) []byte {
	if e, ok := s.dirty[string(key)]; ok {
		if e.del {
			return nil
		}
		return e.v
	}
	return s.parent.Get(key)
}

func (s *ovStore) Has(key []byte) bool { return s.Get(key) != nil }

func (s *ovStore) Set(key, value []byte) {
	storetypes.AssertValidKey(key)
	storetypes.AssertValidValue(value)
	s.dirty[string(key)] = ovEntry{v: append([]byte{}, value...)}
}

func (s *ovStore) Delete(key []byte) {
	storetypes.AssertValidKey(key)
	s.dirty[string(key)] = ovEntry{del: true}
}

func (s *ovStore) rangeKV(start, end []byte) []kvPair {
	base := s.parent.rangeKV(start, end)
	if len(s.dirty) == 0 {
		return base
	}
	var mine []string
	for k := range s.dirty {
		if start != nil && k < string(start) {
			continue
		}
		if end != nil && k >= string(end) {
			continue
		}
		mine = append(mine, k)
	}
	if len(mine) == 0 {
		return base
	}
	sort.Strings(mine)
	out := make([]kvPair, 0, len(base)+len(mine))
	i, j := 0, 0
	for i < len(base) || j < len(mine) {
		switch {
		case j >= len(mine) || (i < len(base) && string(base[i].k) < mine[j]):
			out = append(out, base[i])
			i++
		default:
			if i < len(base) && string(base[i].k) == mine[j] {
				i++
			}
			if e := s.dirty[mine[j]]; !e.del {
				out = append(out, kvPair{[]byte(mine[j]), e.v})
			}
			j++
		}
	}
	return out
}

func (s *ovStore) Iterator(start, end []byte) storetypes.Iterator {
	return &sliceIter{kv: s.rangeKV(start, end), start: start, end: end}
}

func (s *ovStore) ReverseIterator(start, end []byte) storetypes.Iterator {
	kv := s.rangeKV(start, end)
	rev := make([]kvPair, len(kv))
	for i := range kv {
		rev[len(kv)-1-i] = kv[i]
	}
	return &sliceIter{kv: rev, start: start, end: end}
}

// mergeInto applies this overlay's writes to dst (transaction commit).
func (s *ovStore) mergeInto(dst *ovStore) {
	for k, e := range s.dirty {
		dst.dirty[k] = e
	}
}

type sliceIter struct {
	kv         []kvPair
	i          int
	start, end []byte
}

func (it *sliceIter) Domain() ([]byte, []byte) { return it.start, it.end }
func (it *sliceIter) Valid() bool              { return it.i < len(it.kv) }
func (it *sliceIter) Next() {
	if !it.Valid() {
		panic("iterator is invalid")
	}
	it.i++
}
func (it *sliceIter) Key() []byte {
	if !it.Valid() {
		panic("iterator is invalid")
	}
	return it.kv[it.i].k
}
func (it *sliceIter) Value() []byte {
	if !it.Valid() {
		panic("iterator is invalid")
	}
	return it.kv[it.i].v
}
func (it *sliceIter) Error() error { return nil }
func (it *sliceIter) Close() error { return nil }

// ---- multistore -------------------------------------------------------------------------------

// baseSet holds the lazily created immutable bases of one chain.
type baseSet struct {
	src   storetypes.MultiStore
	flats map[storetypes.StoreKey]*flatStore
}

func (b *baseSet) get(key storetypes.StoreKey) *flatStore {
	f, ok := b.flats[key]
	if !ok {
		f = newFlat(b.src.GetKVStore(key))
		b.flats[key] = f
	}
	return f
}

// ovMulti is a MultiStore of overlays.
type ovMulti struct {
	base   *baseSet
	parent *ovMulti // nil for a world-level multistore
	stores map[storetypes.StoreKey]*ovStore
}

var _ storetypes.MultiStore = (*ovMulti)(nil)

func newOvMulti(base *baseSet) *ovMulti {
	return &ovMulti{base: base, stores: map[storetypes.StoreKey]*ovStore{}}
}

// child returns a transaction-level multistore on top of m.
func (m *ovMulti) child() *ovMulti {
	return &ovMulti{base: m.base, parent: m, stores: map[storetypes.StoreKey]*ovStore{}}
}

// clone deep-copies a world-level multistore.
func (m *ovMulti) clone() *ovMulti {
	n := &ovMulti{base: m.base, parent: m.parent, stores: make(map[storetypes.StoreKey]*ovStore, len(m.stores))}
	for k, s := range m.stores {
		if len(s.dirty) > 0 {
			n.stores[k] = s.clone()
		}
	}
	return n
}

// commit merges a transaction-level multistore into its parent.
func (m *ovMulti) commit() {
	for k, s := range m.stores {
		if len(s.dirty) > 0 {
			s.mergeInto(m.parent.store(k))
		}
	}
}

func (m *ovMulti) store(key storetypes.StoreKey) *ovStore {
	s, ok := m.stores[key]
	if !ok {
		if m.parent != nil {
			s = newOv(m.parent.store(key))
		} else {
			s = newOv(m.base.get(key))
		}
		m.stores[key] = s
	}
	return s
}

func (m *ovMulti) GetStoreType() storetypes.StoreType { return storetypes.StoreTypeMulti }
func (m *ovMulti) CacheWrap() storetypes.CacheWrap    { return m.CacheMultiStore().(storetypes.CacheWrap) }
func (m *ovMulti) CacheMultiStore() storetypes.CacheMultiStore {
	return cachemulti.NewFromParent(func(key storetypes.StoreKey) storetypes.CacheWrapper { return m.store(key) })
}
func (m *ovMulti) CacheMultiStoreWithVersion(int64) (storetypes.CacheMultiStore, error) {
	panic("ksim: versioned branch not supported")
}
func (m *ovMulti) GetStore(key storetypes.StoreKey) storetypes.Store     { return m.store(key) }
func (m *ovMulti) GetKVStore(key storetypes.StoreKey) storetypes.KVStore { return m.store(key) }
func (m *ovMulti) GetObjKVStore(storetypes.StoreKey) storetypes.ObjKVStore {
	panic("ksim: object stores not supported")
}
func (m *ovMulti) LatestVersion() int64 { return 0 }

// normalised returns the sorted effective modifications of a world-level store relative to its base.
func (m *ovMulti) normalised(key storetypes.StoreKey, filter func(k []byte) bool) []kvPair {
	s, ok := m.stores[key]
	if !ok || len(s.dirty) == 0 {
		return nil
	}
	base := m.base.get(key)
	var out []kvPair
	for k, e := range s.dirty {
		if filter != nil && !filter([]byte(k)) {
			continue
		}
		bv := base.Get([]byte(k))
		if e.del {
			if bv == nil {
				continue
			}
			out = append(out, kvPair{[]byte(k), nil})
			continue
		}
		if bv != nil && bytes.Equal(bv, e.v) {
			continue
		}
		out = append(out, kvPair{[]byte(k), e.v})
	}
	sort.Slice(out, func(i, j int) bool { return bytes.Compare(out[i].k, out[j].k) < 0 })
	return out
}

func hashPairs(h interface{ Write([]byte) (int, error) }, name string, ps []kvPair) {
	for _, p := range ps {
		writeLP(h, []byte(name))
		writeLP(h, p.k)
		if p.v == nil {
			_, _ = h.Write([]byte{0})
		} else {
			_, _ = h.Write([]byte{1})
			writeLP(h, p.v)
		}
	}
}

func hashFlat(f *flatStore, name string, filter func(store string, k []byte) bool) []byte {
	h := sha256.New()
	for _, p := range f.kv {
		if filter != nil && !filter(name, p.k) {
			continue
		}
		writeLP(h, []byte(name))
		writeLP(h, p.k)
		writeLP(h, p.v)
	}
	return h.Sum(nil)
}
