package ksim

import (
	"errors"
	"fmt"
	"time"

	"github.com/cosmos/gogoproto/proto"

	"cosmossdk.io/core/header"
	errorsmod "cosmossdk.io/errors"

	sdk "github.com/cosmos/cosmos-sdk/types"

	abci "github.com/cometbft/cometbft/abci/types"

	"github.com/cometbft/cometbft/crypto/ed25519"
	"github.com/cometbft/cometbft/crypto/tmhash"
	cmtprotoversion "github.com/cometbft/cometbft/proto/tendermint/version"
	cmttypes "github.com/cometbft/cometbft/types"
	cmtversion "github.com/cometbft/cometbft/version"

	ibcclient "github.com/cosmos/ibc-go/v11/modules/core/02-client"
	clienttypes "github.com/cosmos/ibc-go/v11/modules/core/02-client/types"
	commitmenttypes "github.com/cosmos/ibc-go/v11/modules/core/23-commitment/types"
	ibctm "github.com/cosmos/ibc-go/v11/modules/light-clients/07-tendermint"
	ibctesting "github.com/cosmos/ibc-go/v11/testing"
)

func headerInfo(h int64, t time.Time, chainID string) header.Info {
	return header.Info{Height: h, Time: t, ChainID: chainID}
}

// ValSet is a deterministic validator set with its signers.
type ValSet struct {
	Set     *cmttypes.ValidatorSet
	Signers map[string]cmttypes.PrivValidator
}

// NewValSet derives n equal-power validators from fixed seeds.
func NewValSet(n int) *ValSet { return NewValSetPowers("val", powers(n, 10)) }

func powers(n int, p int64) []int64 {
	out := make([]int64, n)
	for i := range out {
		out[i] = p
	}
	return out
}

// NewValSetPowers derives validators with the given powers from seeds "<tag>-<i>".
func NewValSetPowers(tag string, pw []int64) *ValSet {
	vs := &ValSet{Signers: map[string]cmttypes.PrivValidator{}}
	var vals []*cmttypes.Validator
	for i, p := range pw {
		priv := ed25519.GenPrivKeyFromSecret([]byte(fmt.Sprintf("%s-%d", tag, i)))
		pv := cmttypes.NewMockPVWithParams(priv, false, false)
		pk, _ := pv.GetPubKey()
		vals = append(vals, cmttypes.NewValidator(pk, p))
		vs.Signers[pk.Address().String()] = pv
	}
	vs.Set = cmttypes.NewValidatorSet(vals)
	return vs
}

var unusedHash = tmhash.Sum([]byte{0x00})

// RawHeader builds the (unsigned) CometBFT header of chain i at height h with the given app hash and time.
func (w *World) RawHeader(i int, h int64, timeNs int64, appHash []byte, vals, next *cmttypes.ValidatorSet) cmttypes.Header {
	return cmttypes.Header{
		Version:            cmtprotoversion.Consensus{Block: cmtversion.BlockProtocol, App: 2},
		ChainID:            w.W.Chains[i].ChainID,
		Height:             h,
		Time:               time.Unix(0, timeNs).UTC(),
		LastBlockID:        ibctesting.MakeBlockID(make([]byte, tmhash.Size), 10_000, make([]byte, tmhash.Size)),
		LastCommitHash:     unusedHash,
		DataHash:           unusedHash,
		ValidatorsHash:     vals.Hash(),
		NextValidatorsHash: next.Hash(),
		ConsensusHash:      unusedHash,
		AppHash:            appHash,
		LastResultsHash:    unusedHash,
		EvidenceHash:       unusedHash,
		ProposerAddress:    vals.Proposer.Address, //nolint:staticcheck
	}
}

// SignHeader signs raw with vs and wraps it as a 07-tendermint header trusting (trustedHeight, trusted).
func SignHeader(raw cmttypes.Header, vs *ValSet, trustedHeight clienttypes.Height, trusted *cmttypes.ValidatorSet) (*ibctm.Header, error) {
	sh, err := ibctesting.CommitHeader(raw, vs.Set, vs.Signers)
	if err != nil {
		return nil, err
	}
	pv, err := vs.Set.ToProto()
	if err != nil {
		return nil, err
	}
	pv.TotalVotingPower = vs.Set.TotalVotingPower()
	tv, err := trusted.ToProto()
	if err != nil {
		return nil, err
	}
	tv.TotalVotingPower = trusted.TotalVotingPower()
	return &ibctm.Header{SignedHeader: sh, ValidatorSet: pv, TrustedHeight: trustedHeight, TrustedValidators: tv}, nil
}

// HonestHeader returns the header of chain i's block h (h <= executing height), trusting trustedHeight.
func (w *World) HonestHeader(i int, h int64, trustedHeight clienttypes.Height) (*ibctm.Header, bool) {
	cs := &w.CS[i]
	b, ok := cs.Block(h)
	prev, ok2 := cs.Block(h - 1)
	if !ok || !ok2 || prev.After == nil {
		return nil, false
	}
	ck := fmt.Sprintf("%d|%d|%d|%x", i, h, b.Time, prev.After.AppHash)
	vs := w.W.Vals
	var hdr *ibctm.Header
	if bz, hit := w.W.hdrCache[ck]; hit {
		hdr = &ibctm.Header{}
		if err := proto.Unmarshal(bz, hdr); err != nil {
			panic(err)
		}
	} else {
		raw := w.RawHeader(i, h, b.Time, prev.After.AppHash, vs.Set, vs.Set)
		var err error
		hdr, err = SignHeader(raw, vs, trustedHeight, vs.Set)
		if err != nil {
			panic(err)
		}
		bz, _ := proto.Marshal(hdr)
		if len(w.W.hdrCache) > 100000 {
			w.W.hdrCache = map[string][]byte{}
		}
		w.W.hdrCache[ck] = bz
	}
	hdr.TrustedHeight = trustedHeight
	return hdr, true
}

// ConsensusStateAt is the consensus state an honest header of chain i at height h yields.
func (w *World) ConsensusStateAt(i int, h int64) (*ibctm.ConsensusState, bool) {
	cs := &w.CS[i]
	b, ok := cs.Block(h)
	prev, ok2 := cs.Block(h - 1)
	if !ok || !ok2 || prev.After == nil {
		return nil, false
	}
	return ibctm.NewConsensusState(time.Unix(0, b.Time).UTC(), commitmenttypes.NewMerkleRoot(prev.After.AppHash), w.W.Vals.Set.Hash()), true
}

func (w *World) beginBlock(i int) {
	ch := w.W.Chains[i]
	cs := &w.CS[i]
	ibcclient.BeginBlocker(cs.Ctx, ch.App.IBCKeeper.ClientKeeper)
	ch.App.RateLimitKeeper.BeginBlocker(cs.Ctx)
}

// Class is the result class of a delivered message.
type Class string

// Result classes.
const (
	OK    Class = "OK"
	NOOP  Class = "NOOP"
	ERR   Class = "ERR"
	PANIC Class = "PANIC"
)

// Result describes one delivered message.
type Result struct {
	Class  Class
	Err    error
	Code   string // codespace/code of the error, or panic text
	Resp   []byte // first MsgResponse value
	Events []abci.Event
}

func (r Result) String() string {
	if r.Class == OK || r.Class == NOOP {
		return string(r.Class)
	}
	return string(r.Class) + "(" + r.Code + ")"
}

// Signer is the default relayer / user address used by harness-built messages.
var Signer = sdk.AccAddress([]byte("verif-relayer-000000")).String()

// Tx delivers one message to chain i the way baseapp delivers a one-message transaction
// (minus ante handlers): stateless validation, handler on a branched context, state
// written back only if the handler returns without error or panic.
func (w *World) Tx(i int, msg sdk.Msg) Result {
	if vb, ok := msg.(sdk.HasValidateBasic); ok {
		var verr error
		if p := catch(func() { verr = vb.ValidateBasic() }); p != "" {
			return Result{Class: PANIC, Code: "validate-basic:" + p}
		}
		if verr != nil {
			return Result{Class: ERR, Err: verr, Code: "vb:" + errCode(verr)}
		}
	}
	app := w.W.Chains[i].App
	handler := app.MsgServiceRouter().Handler(msg)
	if handler == nil {
		return Result{Class: ERR, Code: "no-handler"}
	}
	cs := &w.CS[i]
	txms := cs.MS.child()
	write := txms.commit
	cctx := cs.Ctx.WithMultiStore(txms).WithEventManager(sdk.NewEventManager())
	w.W.txObs = nil
	var res *sdk.Result
	var err error
	if p := catch(func() { res, err = handler(cctx, msg) }); p != "" {
		w.W.txObs = nil
		return Result{Class: PANIC, Code: p}
	}
	if err != nil {
		w.W.txObs = nil
		return Result{Class: ERR, Err: err, Code: errCode(err)}
	}
	write()
	for _, e := range w.W.txObs {
		e.Chain = i
		w.Obs = append(w.Obs, e)
	}
	w.W.txObs = nil
	out := Result{Class: OK}
	if res != nil {
		out.Events = res.Events
		if len(res.MsgResponses) > 0 {
			out.Resp = res.MsgResponses[0].Value
		}
	}
	return out
}

// Do runs f against chain i's context with transaction atomicity (used for keeper-level
// application actions such as the mock app sending a packet).
func (w *World) Do(i int, f func(ctx sdk.Context) error) Result {
	cs := &w.CS[i]
	txms := cs.MS.child()
	write := txms.commit
	cctx := cs.Ctx.WithMultiStore(txms).WithEventManager(sdk.NewEventManager())
	w.W.txObs = nil
	var err error
	if p := catch(func() { err = f(cctx) }); p != "" {
		w.W.txObs = nil
		return Result{Class: PANIC, Code: p}
	}
	if err != nil {
		w.W.txObs = nil
		return Result{Class: ERR, Err: err, Code: errCode(err)}
	}
	write()
	for _, e := range w.W.txObs {
		e.Chain = i
		w.Obs = append(w.Obs, e)
	}
	w.W.txObs = nil
	return Result{Class: OK, Events: cctx.EventManager().ABCIEvents()}
}

// Observe is called by application callbacks to log an event of the running transaction.
func (wk *Worker) Observe(e Event) { wk.txObs = append(wk.txObs, e) }

func catch(f func()) (p string) {
	defer func() {
		if r := recover(); r != nil {
			p = fmt.Sprint(r)
			if len(p) > 200 {
				p = p[:200]
			}
			if p == "" {
				p = "panic"
			}
		}
	}()
	f()
	return ""
}

func errCode(err error) string {
	cs, code, _ := errorsmod.ABCIInfo(err, false)
	// unwrap to the innermost registered error for a stable, informative class
	inner := err
	for {
		u := errors.Unwrap(inner)
		if u == nil {
			break
		}
		inner = u
	}
	_ = inner
	return fmt.Sprintf("%s/%d", cs, code)
}
