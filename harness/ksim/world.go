// Package ksim is engine K: explicit-state exploration of the real ibc-go message
// handlers. A World is a set of real SimApp chains whose sdk.Contexts are branched
// (CacheContext) to obtain successor states; the counterparty "node" (block production,
// storage commit, validator signing) is played by this package with real IAVL stores,
// real ICS-23 proofs and real signed CometBFT headers, so that the unmodified
// 07-tendermint light client verifies everything it is given.
package ksim

import (
	"crypto/sha256"
	"encoding/binary"
	"fmt"
	"sort"
	"testing"
	"time"

	dbm "github.com/cosmos/cosmos-db"
	"github.com/cosmos/iavl"
	iavldb "github.com/cosmos/iavl/db"
	ics23 "github.com/cosmos/ics23/go"

	cmtcrypto "github.com/cometbft/cometbft/proto/tendermint/crypto"
	"github.com/cosmos/gogoproto/proto"

	"cosmossdk.io/log/v2"

	"github.com/cosmos/cosmos-sdk/store/v2/rootmulti"
	storetypes "github.com/cosmos/cosmos-sdk/store/v2/types"
	sdk "github.com/cosmos/cosmos-sdk/types"

	clienttypes "github.com/cosmos/ibc-go/v11/modules/core/02-client/types"
	commitmenttypes "github.com/cosmos/ibc-go/v11/modules/core/23-commitment/types"
	ibctesting "github.com/cosmos/ibc-go/v11/testing"
	"github.com/cosmos/ibc-go/v11/testing/simapp"
)

// BlockStep is the default block interval.
const BlockStep = 5 * time.Second

// Chain is one real application instance owned by a worker.
type Chain struct {
	Idx     int
	TC      *ibctesting.TestChain
	App     *simapp.SimApp
	ChainID string
	Rev     uint64
}

// Worker owns a full set of chains (apps are not shared between workers) plus caches.
type Worker struct {
	T      *testing.T
	Coord  *ibctesting.Coordinator
	Chains []*Chain
	Vals   *ValSet

	snapCache  map[[32]byte]*Snapshot
	baseHash   map[string][]byte
	built      map[[32]byte]*builtStore
	builtOrder [][32]byte
	hdrCache   map[string][]byte

	// txObs collects application callbacks of the transaction being executed; it is
	// appended to the world's observer log only when the transaction commits.
	txObs []Event
	// Hook lets a scenario observe/alter mock-app behaviour for the running tx.
	Hook any
}

// Event is one application callback observed in a committed transaction.
type Event struct {
	Chain int
	Kind  string // recv, ack, timeout, recv2, ack2, timeout2, send2, ...
	ID    string // destination/source channel or client as seen by the app
	Seq   uint64
	Data  string
}

// Block is one block of a harness-driven chain.
type Block struct {
	Height int64
	Time   int64     // unix nanoseconds of the block
	After  *Snapshot // provable state after the block (nil while it is executing)
}

// ChainState is the per-chain part of a world state.
type ChainState struct {
	Ctx    sdk.Context
	MS     *ovMulti // world-level overlay multistore (Ctx reads and writes through it)
	Base   int64    // height of Blocks[0]
	Blocks []Block  // Blocks[len-1] is the block being executed
}

// H is the height of the executing block.
func (cs *ChainState) H() int64 { return cs.Blocks[len(cs.Blocks)-1].Height }

// TimeNs is the time of the executing block.
func (cs *ChainState) TimeNs() int64 { return cs.Blocks[len(cs.Blocks)-1].Time }

// Block returns the block at height h.
func (cs *ChainState) Block(h int64) (Block, bool) {
	i := h - cs.Base
	if i < 0 || i >= int64(len(cs.Blocks)) {
		return Block{}, false
	}
	return cs.Blocks[i], true
}

// World is one explored state.
type World struct {
	W   *Worker
	CS  []ChainState
	Obs []Event
	// Ext is scenario bookkeeping (must be cloned by CloneExt when forked).
	Ext Ext
}

// Ext is scenario-owned Go-side state carried by a world.
type Ext interface {
	Clone() Ext
	// KeyBytes is the part of the state key contributed by the scenario bookkeeping.
	KeyBytes() []byte
}

// Snapshot is a committed, provable copy of the tracked stores (a fresh real rootmulti/IAVL).
type Snapshot struct {
	AppHash []byte
	KV      map[string][][2][]byte
	sum     [32]byte
	wk      *Worker
}

// builtStore holds the real IAVL trees of a snapshot plus the rootmulti-style commit info that
// chains their roots into the app hash (kept in a small per-worker cache).
type builtStore struct {
	trees  map[string]*iavl.MutableTree
	ci     storetypes.CommitInfo
	proofs map[string][]byte
}

// ProvableStores are the stores copied into every snapshot.
var ProvableStores = []string{"ibc", "upgrade"}

// NewWorker creates n real chains.
func NewWorker(t *testing.T, n int) *Worker {
	coord := ibctesting.NewCoordinator(t, n)
	wk := &Worker{T: t, Coord: coord, snapCache: map[[32]byte]*Snapshot{}, baseHash: map[string][]byte{}, built: map[[32]byte]*builtStore{}, hdrCache: map[string][]byte{}}
	for i := 1; i <= n; i++ {
		tc := coord.GetChain(ibctesting.GetChainID(i))
		app := tc.GetSimApp()
		wk.Chains = append(wk.Chains, &Chain{Idx: i - 1, TC: tc, App: app, ChainID: tc.ChainID, Rev: clienttypes.ParseChainID(tc.ChainID)})
	}
	wk.Vals = NewValSet(4)
	return wk
}

// T0 is the fixed genesis time of every harness-driven chain.
var T0 = time.Date(2030, 1, 1, 0, 0, 0, 0, time.UTC).UnixNano()

// Root builds the root world: every chain at height 2 with block 1 committed.
func (wk *Worker) Root() *World {
	w := &World{W: wk}
	for _, ch := range wk.Chains {
		src := ch.TC.GetContext()
		ms := newOvMulti(&baseSet{src: src.MultiStore(), flats: map[storetypes.StoreKey]*flatStore{}})
		cs := ChainState{Ctx: src.WithMultiStore(ms), MS: ms, Base: 1, Blocks: []Block{{Height: 1, Time: T0}}}
		w.CS = append(w.CS, cs)
		w.setHeader(ch.Idx)
	}
	for i := range wk.Chains {
		w.Commit(i, BlockStep)
	}
	return w
}

func (w *World) setHeader(i int) {
	cs := &w.CS[i]
	hdr := cs.Ctx.BlockHeader()
	hdr.Height = cs.H()
	hdr.Time = time.Unix(0, cs.TimeNs()).UTC()
	hdr.ChainID = w.W.Chains[i].ChainID
	cs.Ctx = cs.Ctx.WithBlockHeader(hdr).WithBlockHeight(cs.H()).WithBlockTime(hdr.Time).
		WithHeaderInfo(headerInfo(cs.H(), hdr.Time, hdr.ChainID)).WithEventManager(sdk.NewEventManager())
}

// Flatten re-bases every chain context on an immutable in-memory copy of its current content
// (keeps the cache-layer depth of later forks minimal). Call once after scenario set-up.
func (w *World) Flatten() {
	for i := range w.CS {
		cs := &w.CS[i]
		old := cs.MS
		nb := &baseSet{src: old, flats: map[storetypes.StoreKey]*flatStore{}}
		// stores never touched keep their existing immutable base
		for k, f := range old.base.flats {
			if s, ok := old.stores[k]; !ok || len(s.dirty) == 0 {
				nb.flats[k] = f
			}
		}
		for k, s := range old.stores {
			if len(s.dirty) > 0 {
				nb.flats[k] = &flatStore{kv: append([]kvPair{}, s.rangeKV(nil, nil)...)}
			}
		}
		cs.MS = newOvMulti(nb)
		cs.Ctx = cs.Ctx.WithMultiStore(cs.MS)
	}
	w.W.baseHash = map[string][]byte{}
}

// Fork returns an independent successor world branching every chain context.
func (w *World) Fork() *World {
	n := &World{W: w.W, Obs: w.Obs[:len(w.Obs):len(w.Obs)]}
	n.CS = make([]ChainState, len(w.CS))
	for i := range w.CS {
		n.CS[i] = w.CS[i]
		n.CS[i].MS = w.CS[i].MS.clone()
		n.CS[i].Ctx = w.CS[i].Ctx.WithMultiStore(n.CS[i].MS)
		n.CS[i].Blocks = w.CS[i].Blocks[:len(w.CS[i].Blocks):len(w.CS[i].Blocks)]
	}
	if w.Ext != nil {
		n.Ext = w.Ext.Clone()
	}
	return n
}

// Commit ends the executing block of chain i (running the ibc-owned begin blockers of the
// next block), snapshots the provable stores and opens the next block dt later.
func (w *World) Commit(i int, dt time.Duration) {
	cs := &w.CS[i]
	snap := w.snapshot(i)
	blocks := append(cs.Blocks[:len(cs.Blocks):len(cs.Blocks)], Block{})
	blocks[len(blocks)-2].After = snap
	blocks[len(blocks)-1] = Block{Height: cs.H() + 1, Time: cs.TimeNs() + int64(dt)}
	cs.Blocks = blocks
	w.setHeader(i)
	w.beginBlock(i)
}

// snapshot copies the provable stores of chain i into a fresh real rootmulti store and commits it.
func (w *World) snapshot(i int) *Snapshot {
	wk := w.W
	app := wk.Chains[i].App
	cs := &w.CS[i]
	h := sha256.New()
	fmt.Fprintf(h, "chain%d|", i)
	for _, name := range ProvableStores {
		key := app.GetKey(name)
		if key == nil {
			continue
		}
		h.Write(wk.baseHashOf(cs.MS, i, name, key))
		hashPairs(h, name, cs.MS.normalised(key, nil))
	}
	var sum [32]byte
	copy(sum[:], h.Sum(nil))
	if s, ok := wk.snapCache[sum]; ok {
		return s
	}
	kv := map[string][][2][]byte{}
	for _, name := range ProvableStores {
		key := app.GetKey(name)
		if key == nil {
			continue
		}
		var lst [][2][]byte
		for _, p := range cs.MS.store(key).rangeKV(nil, nil) {
			lst = append(lst, [2][]byte{p.k, p.v})
		}
		kv[name] = lst
	}
	s := &Snapshot{KV: kv, sum: sum, wk: wk}
	s.built()
	if len(wk.snapCache) > 50000 {
		wk.snapCache = map[[32]byte]*Snapshot{}
	}
	wk.snapCache[sum] = s
	return s
}

// built returns the IAVL trees of the snapshot, rebuilding them when they fell out of the cache.
// The trees are real cosmos/iavl trees holding exactly the snapshot's content at version 1 and
// the app hash is the rootmulti commit-info hash over them; RootmultiAppHash rebuilds the same
// snapshot through a complete rootmulti.Store and is used as a self-check of this shortcut.
func (s *Snapshot) built() *builtStore {
	wk := s.wk
	if b, ok := wk.built[s.sum]; ok {
		if s.AppHash == nil {
			// a re-created Snapshot (the snapshot cache was reset) whose trees are still cached
			s.AppHash = b.ci.Hash()
		}
		return b
	}
	b := &builtStore{trees: map[string]*iavl.MutableTree{}, proofs: map[string][]byte{}}
	b.ci.Version = 1
	for _, name := range ProvableStores {
		tree := iavl.NewMutableTree(iavldb.NewMemDB(), 0, true, iavl.NewNopLogger())
		for _, e := range s.KV[name] {
			if _, err := tree.Set(e[0], e[1]); err != nil {
				panic(err)
			}
		}
		b.trees[name] = tree
		b.ci.StoreInfos = append(b.ci.StoreInfos, storetypes.StoreInfo{Name: name, CommitId: storetypes.CommitID{Version: 1, Hash: tree.WorkingHash()}})
	}
	hash := b.ci.Hash()
	if s.AppHash != nil && string(hash) != string(s.AppHash) {
		panic("ksim: snapshot rebuild changed the app hash")
	}
	if s.AppHash == nil {
		s.AppHash = hash
	}
	if len(wk.builtOrder) >= 512 {
		delete(wk.built, wk.builtOrder[0])
		wk.builtOrder = wk.builtOrder[1:]
	}
	wk.built[s.sum] = b
	wk.builtOrder = append(wk.builtOrder, s.sum)
	return b
}

// RootmultiAppHash commits the snapshot's content through a complete rootmulti.Store (IAVL
// stores mounted by name, Commit at version 1) and returns the resulting app hash.
func (s *Snapshot) RootmultiAppHash() []byte {
	rs := rootmulti.NewStore(dbm.NewMemDB(), log.NewNopLogger())
	keys := map[string]*storetypes.KVStoreKey{}
	for _, name := range ProvableStores {
		k := storetypes.NewKVStoreKey(name)
		keys[name] = k
		rs.MountStoreWithDB(k, storetypes.StoreTypeIAVL, nil)
	}
	if err := rs.LoadLatestVersion(); err != nil {
		panic(err)
	}
	for name, lst := range s.KV {
		st := rs.GetKVStore(keys[name])
		for _, e := range lst {
			st.Set(e[0], e[1])
		}
	}
	return rs.Commit().Hash
}

// baseHashOf returns (cached) the hash of the immutable base of a store.
func (wk *Worker) baseHashOf(ms *ovMulti, chain int, name string, key storetypes.StoreKey) []byte {
	ck := fmt.Sprintf("%d|%s|%p", chain, name, ms.base)
	if h, ok := wk.baseHash[ck]; ok {
		return h
	}
	h := hashFlat(ms.base.get(key), name, nil)
	wk.baseHash[ck] = h
	return h
}

func writeLP(h interface{ Write([]byte) (int, error) }, b []byte) {
	var l [4]byte
	binary.BigEndian.PutUint32(l[:], uint32(len(b)))
	_, _ = h.Write(l[:])
	_, _ = h.Write(b)
}

// Get returns the value stored under key in the snapshot's store.
func (s *Snapshot) Get(store string, key []byte) []byte {
	lst := s.KV[store]
	i := sort.Search(len(lst), func(i int) bool { return string(lst[i][0]) >= string(key) })
	if i < len(lst) && string(lst[i][0]) == string(key) {
		return lst[i][1]
	}
	return nil
}

// Proof returns the marshalled two-level ICS-23 (non-)membership proof of key.
func (s *Snapshot) Proof(store string, key []byte) []byte {
	b := s.built()
	ck := store + "\x00" + string(key)
	if bz, ok := b.proofs[ck]; ok {
		return bz
	}
	tree := b.trees[store]
	has, err := tree.Has(key)
	if err != nil {
		panic(err)
	}
	var cp *ics23.CommitmentProof
	if has {
		cp, err = tree.GetMembershipProof(key)
	} else {
		cp, err = tree.GetNonMembershipProof(key)
	}
	if err != nil {
		panic(fmt.Sprintf("snapshot proof: %v", err))
	}
	ops := &cmtcrypto.ProofOps{Ops: []cmtcrypto.ProofOp{storetypes.NewIavlCommitmentOp(key, cp).ProofOp(), b.ci.ProofOp(store)}}
	mp, err := commitmenttypes.ConvertProofs(ops)
	if err != nil {
		panic(err)
	}
	bz, err := proto.Marshal(&mp)
	if err != nil {
		panic(err)
	}
	b.proofs[ck] = bz
	return bz
}

// ProofAt builds the proof of key on chain i as seen through a consensus state at
// height p (i.e. in the state after block p-1). ok=false if that state is not committed.
func (w *World) ProofAt(i int, p int64, store string, key []byte) ([]byte, bool) {
	b, ok := w.CS[i].Block(p - 1)
	if !ok || b.After == nil {
		return nil, false
	}
	return b.After.Proof(store, key), true
}

// SnapAt returns the state proven by a consensus state at height p of chain i.
func (w *World) SnapAt(i int, p int64) *Snapshot {
	b, ok := w.CS[i].Block(p - 1)
	if !ok {
		return nil
	}
	return b.After
}

// Height builds the IBC height of chain i for block height h.
func (w *World) Height(i int, h int64) clienttypes.Height {
	return clienttypes.NewHeight(w.W.Chains[i].Rev, uint64(h))
}

// StoreHash hashes the listed stores of chain i: hash of the immutable base (filtered) plus the
// normalised overlay, which together determine the store content.
func (w *World) StoreHash(i int, names []string, filter func(store string, key []byte) bool) []byte {
	h := sha256.New()
	app := w.W.Chains[i].App
	cs := &w.CS[i]
	for _, name := range names {
		key := app.GetKey(name)
		if key == nil {
			continue
		}
		var f func(k []byte) bool
		if filter != nil {
			f = func(k []byte) bool { return filter(name, k) }
			ck := fmt.Sprintf("F%d|%s|%p", i, name, cs.MS.base)
			bh, ok := w.W.baseHash[ck]
			if !ok {
				bh = hashFlat(cs.MS.base.get(key), name, filter)
				w.W.baseHash[ck] = bh
			}
			h.Write(bh)
		} else {
			h.Write(w.W.baseHashOf(cs.MS, i, name, key))
		}
		hashPairs(h, name, cs.MS.normalised(key, f))
	}
	return h.Sum(nil)
}

// DumpStores returns the effective modifications (relative to the root base) of the listed stores of chain i.
func (w *World) DumpStores(i int, names []string) map[string]string {
	out := map[string]string{}
	app := w.W.Chains[i].App
	for _, name := range names {
		key := app.GetKey(name)
		if key == nil {
			continue
		}
		for _, p := range w.CS[i].MS.normalised(key, nil) {
			if p.v == nil {
				out[name+"/"+string(p.k)] = "\x00<deleted>"
			} else {
				out[name+"/"+string(p.k)] = string(p.v)
			}
		}
	}
	return out
}

// DiffStores lists keys whose value differs between two dumps.
func DiffStores(a, b map[string]string) []string {
	var out []string
	for k, v := range a {
		if bv, ok := b[k]; !ok || bv != v {
			out = append(out, k)
		}
	}
	for k := range b {
		if _, ok := a[k]; !ok {
			out = append(out, k)
		}
	}
	sort.Strings(out)
	return out
}

// AllStores are the stores a state key covers by default.
var AllStores = []string{"ibc", "transfer", "ratelimit", "packetfowardmiddleware", "icacontroller", "icahost", "gmp", "authz", "upgrade", "mock"}

// Key is the canonical state key: tracked stores of all chains, heights/times, observer log and scenario bookkeeping.
func (w *World) Key(stores []string, filter func(store string, key []byte) bool) [32]byte {
	h := sha256.New()
	for i := range w.CS {
		h.Write(w.StoreHash(i, stores, filter))
		var b [16]byte
		binary.BigEndian.PutUint64(b[:8], uint64(w.CS[i].H()))
		binary.BigEndian.PutUint64(b[8:], uint64(w.CS[i].TimeNs()))
		h.Write(b[:])
		// committed history matters for which proofs a relayer can still build
		for _, bl := range w.CS[i].Blocks {
			if bl.After != nil {
				h.Write(bl.After.AppHash)
			}
			binary.BigEndian.PutUint64(b[:8], uint64(bl.Time))
			h.Write(b[:8])
		}
	}
	for _, e := range w.Obs {
		fmt.Fprintf(h, "%d|%s|%s|%d|%s;", e.Chain, e.Kind, e.ID, e.Seq, e.Data)
	}
	if w.Ext != nil {
		h.Write(w.Ext.KeyBytes())
	}
	var out [32]byte
	copy(out[:], h.Sum(nil))
	return out
}

// Count returns how many observed events match.
func (w *World) Count(chain int, kind, id string, seq uint64) int {
	n := 0
	for _, e := range w.Obs {
		if e.Chain == chain && e.Kind == kind && e.ID == id && e.Seq == seq {
			n++
		}
	}
	return n
}
