package core

import "sort"

// Strings calls f with every string over alphabet of length 0..maxLen (shortest first).
// f returns false to stop.
func Strings(alphabet []string, maxLen int, f func(s string) bool) {
	var rec func(prefix string, n int) bool
	for l := 0; l <= maxLen; l++ {
		rec = func(prefix string, n int) bool {
			if n == 0 {
				return f(prefix)
			}
			for _, a := range alphabet {
				if !rec(prefix+a, n-1) {
					return false
				}
			}
			return true
		}
		if !rec("", l) {
			return
		}
	}
}

// AllStrings collects Strings into a slice.
func AllStrings(alphabet []string, maxLen int) []string {
	var out []string
	Strings(alphabet, maxLen, func(s string) bool { out = append(out, s); return true })
	return out
}

// Lattice64 is the boundary lattice of 64-bit values used by the arithmetic checks.
func Lattice64() []uint64 {
	set := map[uint64]bool{0: true, 1: true, 2: true, 3: true, 1<<64 - 2: true, 1<<64 - 1: true}
	for _, k := range []uint{7, 8, 15, 16, 24, 31, 32, 33, 52, 53, 54, 62, 63} {
		p := uint64(1) << k
		set[p-1], set[p], set[p+1] = true, true, true
	}
	out := make([]uint64, 0, len(set))
	for v := range set {
		out = append(out, v)
	}
	sort.Slice(out, func(i, j int) bool { return out[i] < out[j] })
	return out
}

// SmallLattice64 is a 16-point sub-lattice for triple products.
func SmallLattice64() []uint64 {
	return []uint64{0, 1, 2, 3, 255, 256, 1<<32 - 1, 1 << 32, 1<<53 - 1, 1 << 53, 1<<53 + 1, 1<<63 - 1, 1 << 63, 1<<63 + 1, 1<<64 - 2, 1<<64 - 1}
}

// Mutation is one single-site change of a byte string.
type Mutation struct {
	Name string
	Out  []byte
}

// Mutations enumerates every single-byte {flip lsb, flip msb, zero, 0xff} change and
// every truncation (plus one-byte extension) of b. Mutants equal to b are skipped.
func Mutations(b []byte, f func(m Mutation) bool) {
	emit := func(name string, out []byte) bool {
		if string(out) == string(b) {
			return true
		}
		return f(Mutation{Name: name, Out: out})
	}
	for i := range b {
		for _, kind := range []string{"lsb", "msb", "zero", "ff"} {
			out := append([]byte{}, b...)
			switch kind {
			case "lsb":
				out[i] ^= 1
			case "msb":
				out[i] ^= 0x80
			case "zero":
				out[i] = 0
			case "ff":
				out[i] = 0xff
			}
			if !emit(kind+"@"+itoa(i), out) {
				return
			}
		}
	}
	for n := 0; n < len(b); n++ {
		if !emit("trunc@"+itoa(n), append([]byte{}, b[:n]...)) {
			return
		}
	}
	if !emit("ext0", append(append([]byte{}, b...), 0)) {
		return
	}
	emit("ext1", append(append([]byte{}, b...), 1))
}

func itoa(i int) string {
	if i == 0 {
		return "0"
	}
	neg := i < 0
	if neg {
		i = -i
	}
	var d []byte
	for i > 0 {
		d = append([]byte{byte('0' + i%10)}, d...)
		i /= 10
	}
	if neg {
		d = append([]byte{'-'}, d...)
	}
	return string(d)
}

// Permutations calls f with every permutation of 0..n-1.
func Permutations(n int, f func(p []int) bool) {
	p := make([]int, n)
	for i := range p {
		p[i] = i
	}
	var rec func(k int) bool
	rec = func(k int) bool {
		if k == n {
			return f(append([]int{}, p...))
		}
		for i := k; i < n; i++ {
			p[k], p[i] = p[i], p[k]
			if !rec(k + 1) {
				return false
			}
			p[k], p[i] = p[i], p[k]
		}
		return true
	}
	rec(0)
}

// Product calls f with every tuple in dims[0] x dims[1] x ... (indices).
func Product(dims []int, f func(idx []int) bool) {
	idx := make([]int, len(dims))
	for _, d := range dims {
		if d == 0 {
			return
		}
	}
	for {
		if !f(append([]int{}, idx...)) {
			return
		}
		i := len(dims) - 1
		for i >= 0 {
			idx[i]++
			if idx[i] < dims[i] {
				break
			}
			idx[i] = 0
			i--
		}
		if i < 0 {
			return
		}
	}
}
