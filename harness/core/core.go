// Package core holds the check registry, evidence writer, violation / known-finding
// reporting and small generic enumerators shared by every check.
package core

import (
	"bufio"
	"crypto/sha256"
	"encoding/hex"
	"encoding/json"
	"fmt"
	"os"
	"path/filepath"
	"runtime/pprof"
	"sort"
	"strconv"
	"strings"
	"sync"
	"testing"
	"time"
)

// Root is the verification directory (evidence, replays, known findings live here).
func Root() string {
	if r := os.Getenv("VERIF_ROOT"); r != "" {
		return r
	}
	return "/verif"
}

// Check is one registered property check.
type Check struct {
	ID    string
	Level string // evidence level: exploration | fault_enumeration | model_checking
	Run   func(c *C)
}

var registry = map[string]Check{}

// Register adds a check; called from init() of the props packages.
func Register(id, level string, run func(c *C)) {
	if _, dup := registry[id]; dup {
		panic("duplicate check " + id)
	}
	registry[id] = Check{ID: id, Level: level, Run: run}
}

// Lookup returns the check registered under id.
func Lookup(id string) (Check, bool) { c, ok := registry[id]; return c, ok }

// IDs lists registered checks.
func IDs() []string {
	var out []string
	for k := range registry {
		out = append(out, k)
	}
	sort.Strings(out)
	return out
}

// C is the per-run context handed to a check.
type C struct {
	T      *testing.T
	ID     string
	Level  string
	Tier   string
	Seed   int64
	Start  time.Time
	Budget time.Duration // soft wall-clock cap; exceeding it ends exploration with exhaustive=false
	Replay string        // path of a replay file when run with --replay

	mu          sync.Mutex
	cov         map[string]any
	samples     []any
	assumptions []string
	violations  int
	knownHits   map[string]bool
	seenViol    map[string]bool
	broken      []string
	known       map[string]string // stable key -> text
	capped      bool
	subDeadline time.Time
}

// NewC builds a context from the environment.
func NewC(t *testing.T, ck Check) *C {
	tier := os.Getenv("VERIF_TIER")
	if tier != "thorough" {
		tier = "quick"
	}
	seed, _ := strconv.ParseInt(os.Getenv("VERIF_SEED"), 10, 64)
	c := &C{T: t, ID: ck.ID, Level: ck.Level, Tier: tier, Seed: seed, Start: time.Now(),
		cov: map[string]any{}, knownHits: map[string]bool{}, seenViol: map[string]bool{}, known: map[string]string{},
		Replay: os.Getenv("VERIF_REPLAY")}
	c.Budget = 100 * time.Second
	if tier == "thorough" {
		c.Budget = 20 * time.Minute
	}
	if b := os.Getenv("VERIF_BUDGET_S"); b != "" {
		if n, err := strconv.Atoi(b); err == nil {
			c.Budget = time.Duration(n) * time.Second
		}
	}
	c.loadKnown()
	return c
}

func (c *C) loadKnown() {
	f, err := os.Open(filepath.Join(Root(), "known_findings.txt"))
	if err != nil {
		return
	}
	defer f.Close()
	sc := bufio.NewScanner(f)
	for sc.Scan() {
		line := strings.TrimSpace(sc.Text())
		if !strings.HasPrefix(line, "known:") {
			continue // "fixed:" entries and comments suppress nothing
		}
		fields := strings.Fields(strings.TrimPrefix(line, "known:"))
		var prop, id string
		var rest []string
		for _, f := range fields {
			switch {
			case strings.HasPrefix(f, "property=") && prop == "":
				prop = strings.TrimPrefix(f, "property=")
			case strings.HasPrefix(f, "id=") && id == "":
				id = strings.TrimPrefix(f, "id=")
			default:
				rest = append(rest, f)
			}
		}
		if prop == c.ID && id != "" {
			c.known[id] = strings.Join(rest, " ")
		}
	}
}

// Quick reports whether this is the quick tier.
func (c *C) Quick() bool { return c.Tier == "quick" }

// Pick returns q in the quick tier and t in the thorough tier.
func Pick[T any](c *C, q, t T) T {
	if c.Quick() {
		return q
	}
	return t
}

// TimeUp reports whether the soft budget is used up; the caller must then stop
// exploring, and the run is reported as not exhaustive.
func (c *C) TimeUp() bool {
	c.mu.Lock()
	sub := c.subDeadline
	c.mu.Unlock()
	if time.Since(c.Start) > c.Budget || (!sub.IsZero() && time.Now().After(sub)) {
		c.mu.Lock()
		c.capped = true
		c.mu.Unlock()
		return true
	}
	return false
}

// SubBudget limits the current part of a multi-part check to the given share (0..1) of the
// remaining budget; pass 0 to clear.
func (c *C) SubBudget(share float64) {
	c.mu.Lock()
	defer c.mu.Unlock()
	if share <= 0 {
		c.subDeadline = time.Time{}
		return
	}
	rem := c.Budget - time.Since(c.Start)
	if rem < 0 {
		rem = 0
	}
	c.subDeadline = time.Now().Add(time.Duration(float64(rem) * share))
}

// Capped reports whether TimeUp ever returned true.
func (c *C) Capped() bool { c.mu.Lock(); defer c.mu.Unlock(); return c.capped }

// Set records a coverage key.
func (c *C) Set(k string, v any) { c.mu.Lock(); c.cov[k] = v; c.mu.Unlock() }

// Add adds n to an integer coverage key.
func (c *C) Add(k string, n int) {
	c.mu.Lock()
	cur, _ := c.cov[k].(int)
	c.cov[k] = cur + n
	c.mu.Unlock()
}

// Get returns an integer coverage key.
func (c *C) Get(k string) int { c.mu.Lock(); defer c.mu.Unlock(); v, _ := c.cov[k].(int); return v }

// GetAny returns a coverage key as recorded.
func (c *C) GetAny(k string) any { c.mu.Lock(); defer c.mu.Unlock(); return c.cov[k] }

// Hist increments histogram[name][bucket].
func (c *C) Hist(name, bucket string) {
	c.mu.Lock()
	h, _ := c.cov[name].(map[string]int)
	if h == nil {
		h = map[string]int{}
		c.cov[name] = h
	}
	h[bucket]++
	c.mu.Unlock()
}

// Sample keeps up to 12 example cases for the evidence file.
func (c *C) Sample(v any) {
	c.mu.Lock()
	if len(c.samples) < 12 {
		c.samples = append(c.samples, v)
	}
	c.mu.Unlock()
}

// Assume records an assumption / trusted-base statement.
func (c *C) Assume(s string) { c.mu.Lock(); c.assumptions = append(c.assumptions, s); c.mu.Unlock() }

// Broken records a harness self-check failure (exit 2, never a VIOLATION).
func (c *C) Broken(format string, a ...any) {
	msg := fmt.Sprintf(format, a...)
	c.mu.Lock()
	c.broken = append(c.broken, msg)
	c.mu.Unlock()
	fmt.Printf("HARNESS-ERROR property=%s %s\n", c.ID, msg)
}

// Violations returns the number of (unlisted) violations so far.
func (c *C) Violations() int { c.mu.Lock(); defer c.mu.Unlock(); return c.violations }

// Violation reports a property violation. key is a stable identifier of the failing
// input / call site / history (used for de-duplication and for known_findings.txt),
// text a one-line description, replay any JSON-marshalable artefact that lets
// `./run <id> --replay <file>` re-execute exactly this case.
// It returns true when the violation is new and not a listed known finding.
func (c *C) Violation(key, text string, replay any) bool {
	c.mu.Lock()
	defer c.mu.Unlock()
	if txt, ok := c.known[key]; ok {
		if !c.knownHits[key] {
			c.knownHits[key] = true
			fmt.Printf("KNOWN-FINDING: property=%s id=%s %s\n", c.ID, key, txt)
		}
		return false
	}
	if c.seenViol[key] {
		return false
	}
	c.seenViol[key] = true
	c.violations++
	if c.violations > 20 {
		return true // cap the number of artefacts written; still counted
	}
	h := sha256.Sum256([]byte(key))
	path := filepath.Join(Root(), "replays", fmt.Sprintf("%s-%s.json", c.ID, hex.EncodeToString(h[:6])))
	_ = os.MkdirAll(filepath.Dir(path), 0o755)
	art := map[string]any{"property": c.ID, "key": key, "text": text, "replay": replay,
		"how_to_replay": fmt.Sprintf("./run %s --replay %s", c.ID, path)}
	bz, err := json.MarshalIndent(art, "", " ")
	if err != nil {
		bz, _ = json.MarshalIndent(map[string]any{"property": c.ID, "key": key, "text": text, "replay": fmt.Sprintf("%+v", replay)}, "", " ")
	}
	_ = os.WriteFile(path, bz, 0o644)
	fmt.Printf("VIOLATION property=%s replay=%s\n", c.ID, path)
	fmt.Printf("  detail: key=%s %s\n", key, text)
	return true
}

// Finish writes the evidence file and returns the process exit code.
func (c *C) Finish() int {
	c.mu.Lock()
	defer c.mu.Unlock()
	if _, ok := c.cov["exhaustive"]; !ok {
		c.cov["exhaustive"] = !c.capped
	} else if c.capped {
		c.cov["exhaustive"] = false
	}
	c.cov["capped_by_time_budget"] = c.capped
	if len(c.samples) > 0 {
		c.cov["samples"] = c.samples
	}
	if len(c.knownHits) > 0 {
		var ks []string
		for k := range c.knownHits {
			ks = append(ks, k)
		}
		sort.Strings(ks)
		c.cov["known_findings_reproduced"] = ks
	}
	ev := map[string]any{
		"property_id": c.ID,
		"tier":        c.Tier,
		"seed":        c.Seed,
		"level":       c.Level,
		"coverage":    c.cov,
		"assumptions": c.assumptions,
		"wall_s":      time.Since(c.Start).Seconds(),
		"violations":  c.violations,
	}
	if c.assumptions == nil {
		ev["assumptions"] = []string{}
	}
	if c.Replay == "" {
		bz, err := json.MarshalIndent(ev, "", " ")
		if err != nil {
			fmt.Printf("HARNESS-ERROR property=%s evidence marshal: %v\n", c.ID, err)
			return 2
		}
		dir := filepath.Join(Root(), "evidence")
		if d := os.Getenv("VERIF_EVIDENCE_DIR"); d != "" { // development aid (tools/seedregress.sh): keep the committed evidence untouched
			dir = d
		}
		path := filepath.Join(dir, c.ID+".json")
		_ = os.MkdirAll(filepath.Dir(path), 0o755)
		if err := os.WriteFile(path, bz, 0o644); err != nil {
			fmt.Printf("HARNESS-ERROR property=%s evidence write: %v\n", c.ID, err)
			return 2
		}
	}
	summary := map[string]any{}
	for k, v := range c.cov {
		if k == "samples" {
			continue
		}
		summary[k] = v
	}
	sb, _ := json.Marshal(summary)
	fmt.Printf("RESULT property=%s tier=%s violations=%d wall_s=%.1f coverage=%s\n", c.ID, c.Tier, c.violations, time.Since(c.Start).Seconds(), sb)
	if len(c.broken) > 0 {
		return 2
	}
	if c.violations > 0 {
		return 1
	}
	return 0
}

// LoadReplay decodes the "replay" member of a replay artefact into v.
func (c *C) LoadReplay(v any) error {
	bz, err := os.ReadFile(c.Replay)
	if err != nil {
		return err
	}
	var art struct {
		Replay json.RawMessage `json:"replay"`
	}
	if err := json.Unmarshal(bz, &art); err != nil {
		return err
	}
	return json.Unmarshal(art.Replay, v)
}

// Catch runs f and converts a panic into an error string ("" when none).
func Catch(f func()) (p string) {
	defer func() {
		if r := recover(); r != nil {
			p = fmt.Sprint(r)
			if p == "" {
				p = "panic"
			}
		}
	}()
	f()
	return ""
}

// RunFromEnv executes the check named by VERIF_PROP and exits with its status
// (0 held, 1 violation, 2 harness failure). It is the body of every TestRun.
func RunFromEnv(t *testing.T) {
	id := os.Getenv("VERIF_PROP")
	if id == "" {
		t.Skip("VERIF_PROP not set; registered checks: ", IDs())
	}
	ck, ok := Lookup(id)
	if !ok {
		fmt.Printf("HARNESS-ERROR no check registered for %s (have %v)\n", id, IDs())
		os.Exit(2)
	}
	c := NewC(t, ck)
	if pf := os.Getenv("VERIF_CPUPROFILE"); pf != "" {
		f, _ := os.Create(pf)
		_ = pprof.StartCPUProfile(f)
	}
	if p := Catch(func() { ck.Run(c) }); p != "" {
		c.Broken("check panicked: %s", p)
	}
	code := c.Finish()
	pprof.StopCPUProfile()
	if code == 0 {
		return // `go test` forbids os.Exit(0) inside a test; a passing test exits 0 by itself
	}
	os.Exit(code)
}
