package harness

import (
	"fmt"
	"os"
	"runtime/pprof"
	"testing"

	"verif/harness/core"
	_ "verif/harness/props"
)

// TestRun executes the one check named by VERIF_PROP and exits with its status
// (0 held, 1 violation, 2 harness failure).
func TestRun(t *testing.T) {
	id := os.Getenv("VERIF_PROP")
	if id == "" {
		t.Skip("VERIF_PROP not set; registered checks: ", core.IDs())
	}
	ck, ok := core.Lookup(id)
	if !ok {
		fmt.Printf("HARNESS-ERROR no check registered for %s\n", id)
		os.Exit(2)
	}
	c := core.NewC(t, ck)
	if pf := os.Getenv("VERIF_CPUPROFILE"); pf != "" {
		f, _ := os.Create(pf)
		_ = pprof.StartCPUProfile(f)
		defer pprof.StopCPUProfile()
	}
	if p := core.Catch(func() { ck.Run(c) }); p != "" {
		c.Broken("check panicked: %s", p)
	}
	code := c.Finish()
	if mf := os.Getenv("VERIF_MEMPROFILE"); mf != "" {
		f, _ := os.Create(mf)
		_ = pprof.Lookup("allocs").WriteTo(f, 0)
		f.Close()
	}
	pprof.StopCPUProfile()
	os.Exit(code)
}
