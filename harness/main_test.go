package harness

import (
	"testing"

	"verif/harness/core"
	_ "verif/harness/props"
)

// TestRun executes the one check named by VERIF_PROP and exits with its status
// (0 held, 1 violation, 2 harness failure).
func TestRun(t *testing.T) { core.RunFromEnv(t) }
