// Injected by `go test -overlay` into /repo/modules/light-clients/08-wasm/internal/types (see run.sh).
// Self-contained check of property C29 ("wasm client recovery never writes the substitute's store"):
//
//	While a wasm light client is being recovered, the contract's writes and deletes reach only the
//	subject client's store, the substitute client's store is never modified, and reads are routed by
//	the subject/substitute key prefix. Keys or iteration ranges that do not carry one consistent
//	prefix read as empty.
//
// Engine S: every sequence of <= N operations from {get, has, set, delete, iterate, reverseIterate}
// over a fixed key alphabet is applied to a real ClientRecoveryStore built over two real in-memory
// stores, and after every single operation (a) the value read is compared with a reference made of
// two Go maps and (b) both underlying real stores are dumped and compared with the reference maps.
// Panics of the underlying store (empty stripped key) are a separate outcome class, not violations.
package types_test

import (
	"crypto/sha256"
	"encoding/hex"
	"encoding/json"
	"fmt"
	"os"
	"path/filepath"
	"sort"
	"strconv"
	"strings"
	"testing"
	"time"

	dbm "github.com/cosmos/cosmos-db"

	"github.com/cosmos/cosmos-sdk/store/v2/dbadapter"
	storetypes "github.com/cosmos/cosmos-sdk/store/v2/types"

	internaltypes "github.com/cosmos/ibc-go/modules/light-clients/08-wasm/v11/internal/types"
)

// ---------------------------------------------------------------------------------------------
// alphabet

type c29Op struct {
	Kind  string  `json:"op"`              // get | has | set | delete | iterate | reverseIterate
	Key   *string `json:"key,omitempty"`   // nil pointer = nil key
	End   *string `json:"end,omitempty"`   // iterate / reverseIterate: end bound (Key is the start bound)
	Value string  `json:"value,omitempty"` // set
}

func (o c29Op) String() string {
	k := func(p *string) string {
		if p == nil {
			return "nil"
		}
		return strconv.Quote(*p)
	}
	switch o.Kind {
	case "set":
		return fmt.Sprintf("set(%s,%q)", k(o.Key), o.Value)
	case "iterate", "reverseIterate":
		return fmt.Sprintf("%s(%s,%s)", o.Kind, k(o.Key), k(o.End))
	}
	return fmt.Sprintf("%s(%s)", o.Kind, k(o.Key))
}

func c29Bytes(p *string) []byte {
	if p == nil {
		return nil
	}
	return []byte(*p)
}

func c29Keys() []*string {
	// "substitute/subject/a" and "x/subject/a" carry a prefix at a position other than 0 (a router that
	// searches for the prefix instead of anchoring it sends them to the wrong store)
	ks := []string{"subject/a", "subject/b", "substitute/a", "a", "subject", "subject/", "substitute/", "subjectX/a", "substitute/subject/a", "x/subject/a"}
	out := make([]*string, 0, len(ks)+1)
	for i := range ks {
		out = append(out, &ks[i])
	}
	return append(out, nil)
}

func c29Alphabet(values []string) []c29Op {
	keys := c29Keys()
	var ops []c29Op
	for _, k := range keys {
		ops = append(ops, c29Op{Kind: "get", Key: k})
	}
	for _, k := range keys {
		ops = append(ops, c29Op{Kind: "has", Key: k})
	}
	for _, v := range values {
		for _, k := range keys {
			ops = append(ops, c29Op{Kind: "set", Key: k, Value: v})
		}
	}
	for _, k := range keys {
		ops = append(ops, c29Op{Kind: "delete", Key: k})
	}
	for _, kind := range []string{"iterate", "reverseIterate"} {
		for _, s := range keys {
			for _, e := range keys {
				ops = append(ops, c29Op{Kind: kind, Key: s, End: e})
			}
		}
	}
	return ops
}

// ---------------------------------------------------------------------------------------------
// reference model: two Go maps

type c29KV struct{ K, V string }

type c29Ref struct {
	subject    map[string]string
	substitute map[string]string
}

func c29InitialSubject() map[string]string {
	return map[string]string{"a": "subj-a", "b": "subj-b", "substitute/a": "subj-decoy"}
}

func c29InitialSubstitute() map[string]string {
	return map[string]string{"a": "subst-a", "b": "subst-b", "c": "subst-c", "subject/a": "subst-decoy"}
}

func (r *c29Ref) clone() *c29Ref {
	n := &c29Ref{subject: map[string]string{}, substitute: map[string]string{}}
	for k, v := range r.subject {
		n.subject[k] = v
	}
	for k, v := range r.substitute {
		n.substitute[k] = v
	}
	return n
}

const (
	c29None = iota
	c29Subject
	c29Substitute
)

// route is the reference of the prefix routing, written independently of SplitPrefix/GetStore.
func c29Route(key []byte) (int, string) {
	s := string(key)
	if strings.HasPrefix(s, "subject/") {
		return c29Subject, s[len("subject/"):]
	}
	if strings.HasPrefix(s, "substitute/") {
		return c29Substitute, s[len("substitute/"):]
	}
	return c29None, s
}

func (r *c29Ref) m(which int) map[string]string {
	if which == c29Subject {
		return r.subject
	}
	return r.substitute
}

func c29Sorted(m map[string]string) []c29KV {
	out := make([]c29KV, 0, len(m))
	for k, v := range m {
		out = append(out, c29KV{k, v})
	}
	sort.Slice(out, func(i, j int) bool { return out[i].K < out[j].K })
	return out
}

// c29Result is what one operation returned.
type c29Result struct {
	Panic string  `json:"panic,omitempty"`
	Val   *string `json:"value,omitempty"` // get: nil pointer = nil
	Has   bool    `json:"has,omitempty"`
	Items []c29KV `json:"items,omitempty"` // iterate
}

// expect computes the reference answer of op in state r and the reference successor state
// (applied to r in place by the caller only when the real operation did not panic).
// storePanics is true when the routed operation hands the underlying store an empty key, which
// the real in-memory store refuses by panicking (reported as its own outcome class).
func (r *c29Ref) expect(op c29Op) (res c29Result, apply func(), storePanics bool) {
	apply = func() {}
	switch op.Kind {
	case "get", "has", "set", "delete":
		which, k := c29Route(c29Bytes(op.Key))
		switch op.Kind {
		case "get":
			if which != c29None {
				storePanics = k == ""
				if v, ok := r.m(which)[k]; ok {
					res.Val = &v
				}
			}
		case "has":
			if which != c29None {
				storePanics = k == ""
				_, res.Has = r.m(which)[k]
			}
		case "set":
			if which == c29Subject {
				storePanics = k == ""
				apply = func() { r.subject[k] = op.Value }
			}
		case "delete":
			if which == c29Subject {
				storePanics = k == ""
				apply = func() { delete(r.subject, k) }
			}
		}
	case "iterate", "reverseIterate":
		ws, s := c29Route(c29Bytes(op.Key))
		we, e := c29Route(c29Bytes(op.End))
		if ws == c29None || ws != we {
			return res, apply, false // no single consistent prefix: reads as empty
		}
		storePanics = s == "" || e == ""
		for _, kv := range c29Sorted(r.m(ws)) {
			if kv.K >= s && kv.K < e {
				res.Items = append(res.Items, kv)
			}
		}
		if op.Kind == "reverseIterate" {
			for i, j := 0, len(res.Items)-1; i < j; i, j = i+1, j-1 {
				res.Items[i], res.Items[j] = res.Items[j], res.Items[i]
			}
		}
	}
	return res, apply, storePanics
}

// ---------------------------------------------------------------------------------------------
// real system

type c29Real struct {
	subject, substitute dbadapter.Store
	rec                 internaltypes.ClientRecoveryStore
	diverged            bool // a violation was already reported on these live stores
}

func c29NewReal(subject, substitute map[string]string) *c29Real {
	w := &c29Real{subject: dbadapter.Store{DB: dbm.NewMemDB()}, substitute: dbadapter.Store{DB: dbm.NewMemDB()}}
	for _, kv := range c29Sorted(subject) {
		w.subject.Set([]byte(kv.K), []byte(kv.V))
	}
	for _, kv := range c29Sorted(substitute) {
		w.substitute.Set([]byte(kv.K), []byte(kv.V))
	}
	w.rec = internaltypes.NewClientRecoveryStore(w.subject, w.substitute)
	return w
}

func c29Dump(s storetypes.KVStore) []c29KV {
	it := s.Iterator(nil, nil)
	defer it.Close()
	var out []c29KV
	for ; it.Valid(); it.Next() {
		out = append(out, c29KV{string(it.Key()), string(it.Value())})
	}
	return out
}

func (w *c29Real) apply(op c29Op) (res c29Result) {
	defer func() {
		if p := recover(); p != nil {
			res = c29Result{Panic: fmt.Sprint(p)}
			if res.Panic == "" {
				res.Panic = "panic"
			}
		}
	}()
	var st storetypes.KVStore = w.rec
	switch op.Kind {
	case "get":
		if v := st.Get(c29Bytes(op.Key)); v != nil {
			s := string(v)
			res.Val = &s
		}
	case "has":
		res.Has = st.Has(c29Bytes(op.Key))
	case "set":
		st.Set(c29Bytes(op.Key), []byte(op.Value))
	case "delete":
		st.Delete(c29Bytes(op.Key))
	case "iterate", "reverseIterate":
		var it storetypes.Iterator
		if op.Kind == "iterate" {
			it = st.Iterator(c29Bytes(op.Key), c29Bytes(op.End))
		} else {
			it = st.ReverseIterator(c29Bytes(op.Key), c29Bytes(op.End))
		}
		defer it.Close()
		for ; it.Valid(); it.Next() {
			res.Items = append(res.Items, c29KV{string(it.Key()), string(it.Value())})
			if len(res.Items) > 64 {
				panic("iterator does not terminate")
			}
		}
	}
	return res
}

func c29EqKVs(a, b []c29KV) bool {
	if len(a) != len(b) {
		return false
	}
	for i := range a {
		if a[i] != b[i] {
			return false
		}
	}
	return true
}

func c29EqRes(a, b c29Result) bool {
	if (a.Val == nil) != (b.Val == nil) || (a.Val != nil && *a.Val != *b.Val) {
		return false
	}
	return a.Has == b.Has && c29EqKVs(a.Items, b.Items)
}

// ---------------------------------------------------------------------------------------------
// driver

type c29Run struct {
	root       string
	tier       string
	seed       int64
	start      time.Time
	budget     time.Duration
	capped     bool
	evals      int
	sequences  int
	nontrivial int
	panics     map[string]int
	unexpPanic map[string]int
	outcomes   map[string]int
	seenViol   map[string]bool
	violations int
	violEvents int
	samples    []any
	broken     []string
	initSubst  []c29KV
	extra      map[string]any
	byLen      map[int]int
	fullDump   bool
	states     map[string]bool
}

func (r *c29Run) timeUp() bool {
	if time.Since(r.start) > r.budget {
		r.capped = true
	}
	return r.capped
}

func (r *c29Run) violation(key, text string, seq []c29Op) {
	r.violEvents++
	if r.seenViol[key] {
		return
	}
	r.seenViol[key] = true
	r.violations++
	if r.violations > 20 {
		return
	}
	h := sha256.Sum256([]byte(key))
	path := filepath.Join(r.root, "replays", "C29-"+hex.EncodeToString(h[:6])+".json")
	_ = os.MkdirAll(filepath.Dir(path), 0o755)
	strs := make([]string, len(seq))
	for i, o := range seq {
		strs[i] = o.String()
	}
	art := map[string]any{"property": "C29", "key": key, "text": text,
		"replay":        map[string]any{"ops": seq, "readable": strs},
		"how_to_replay": "VERIF_REPLAY=" + path + " /verif/overlay/c29/run.sh quick"}
	bz, _ := json.MarshalIndent(art, "", " ")
	_ = os.WriteFile(path, bz, 0o644)
	fmt.Printf("VIOLATION property=C29 replay=%s\n", path)
	fmt.Printf("  detail: key=%s %s\n", key, text)
}

// same reports whether the real store holds exactly want. In the full-dump mode (explicit-state part)
// the store is iterated completely; in the fast mode (sequence enumeration) equality is decided by the
// entry count reported by the in-memory database plus one Get per expected entry, which is equivalent.
func (r *c29Run) same(s dbadapter.Store, want []c29KV) bool {
	if !r.fullDump {
		if n, err := strconv.Atoi(s.DB.Stats()["database.size"]); err == nil {
			if n != len(want) {
				return false
			}
			for _, kv := range want {
				v, err := s.DB.Get([]byte(kv.K))
				if err != nil || v == nil || string(v) != kv.V {
					return false
				}
			}
			return true
		}
	}
	return c29EqKVs(c29Dump(s), want)
}

// step applies op to the real store and the reference, checks every clause of the property and
// reports whether the step was non-trivial (routed data was returned or the subject store changed).
func (r *c29Run) step(w *c29Real, ref *c29Ref, prefix []c29Op, op c29Op) bool {
	if w.diverged {
		return false // follow-on effects of an already reported violation are not reported again
	}
	r.evals++
	nviol := r.violEvents
	defer func() { w.diverged = r.violEvents != nviol }()
	seq := append(append([]c29Op{}, prefix...), op)
	want, apply, storePanics := ref.expect(op)
	before := len(ref.subject)
	beforeDump := c29Sorted(ref.subject)
	got := w.apply(op)
	nontrivial := false
	if got.Panic != "" {
		cls := op.Kind
		if storePanics {
			r.panics[cls]++
			r.outcomes["panic_empty_stripped_key"]++
		} else {
			r.unexpPanic[op.String()]++
			r.outcomes["panic_other"]++
		}
		// a panicking operation is not compared, and the reference treats it as not applied
	} else {
		apply()
		if !c29EqRes(got, want) {
			gb, _ := json.Marshal(got)
			wb, _ := json.Marshal(want)
			r.violation("read-routing/"+op.String(), fmt.Sprintf("%s returned %s, reference routing says %s (after %d earlier ops)", op, gb, wb, len(prefix)), seq)
		}
		r.outcomes["compared"]++
		if want.Val != nil || want.Has || len(want.Items) > 0 {
			nontrivial = true
		}
	}
	// underlying stores after every operation
	after := c29Sorted(ref.subject)
	if !r.same(w.substitute, r.initSubst) {
		subst := c29Dump(w.substitute)
		r.violation("substitute-modified/"+op.String(), fmt.Sprintf("substitute store changed by %s: now %v, initially %v", op, subst, r.initSubst), seq)
	}
	if !r.same(w.subject, after) {
		subj := c29Dump(w.subject)
		r.violation("subject-content/"+op.String(), fmt.Sprintf("subject store after %s is %v, reference (only subject/-prefixed set/delete applied, prefix stripped) says %v", op, subj, after), seq)
	}
	if len(after) != before || !c29EqKVs(after, beforeDump) {
		nontrivial = true
	}
	return nontrivial
}

// enumerate visits every sequence of exactly `target` operations below prefix (depth-first) and
// evaluates its last operation (the earlier ones were evaluated when the shorter sequences were
// enumerated: the caller runs target = 1, 2, ... so the first counterexample found is a shortest one).
// Every evaluated sequence gets fresh real stores materialised from the reference maps, so no hidden
// state of the in-memory stores is shared between sequences.
func (r *c29Run) enumerate(ops []c29Op, ref *c29Ref, prefix []c29Op, target int) {
	leaf := len(prefix)+1 == target
	for i, op := range ops {
		if i%16 == 0 && r.timeUp() {
			return
		}
		if !leaf {
			// inner node: advance the reference only (a panicking store operation changes nothing)
			nref := ref.clone()
			_, apply, storePanics := nref.expect(op)
			if !storePanics {
				apply()
			}
			r.enumerate(ops, nref, append(append([]c29Op{}, prefix...), op), target)
			continue
		}
		w := c29NewReal(ref.subject, ref.substitute)
		nref := ref.clone()
		nt := r.step(w, nref, prefix, op)
		r.sequences++
		r.byLen[len(prefix)+1]++
		if nt {
			r.nontrivial++
		}
		if len(r.samples) < 8 && (r.sequences%99991 == 1 || (nt && r.sequences%10007 == 7)) {
			r.sample(append(append([]c29Op{}, prefix...), op), w)
		}
	}
}

func (r *c29Run) sample(seq []c29Op, w *c29Real) {
	strs := make([]string, len(seq))
	for i, o := range seq {
		strs[i] = o.String()
	}
	r.samples = append(r.samples, map[string]any{"ops": strs, "subject_after": c29Dump(w.subject), "substitute_after": c29Dump(w.substitute)})
}

func c29StateKey(ref *c29Ref) string {
	return fmt.Sprint(c29Sorted(ref.subject), "|", c29Sorted(ref.substitute))
}

// explore is the explicit-state part: breadth-first over reference states (= contents of both stores),
// de-duplicated on the state, until no new state appears (or maxDepth). Every state is expanded on LIVE
// stores: a fresh pair of stores executes the state's first-found history without re-materialisation and
// then (a) every single operation o of the alphabet and (b) every pair o1·o2. Hence every sequence of
// length <= depth(state)+2 is covered up to state equivalence of its prefix. Sequences not longer than
// lenA were already enumerated individually in part A and are not counted as distinct again.
// Returns whether the frontier became empty (fixpoint: all reachable states expanded).
func (r *c29Run) explore(ops []c29Op, maxDepth, lenA int) (fixpoint bool) {
	type node struct {
		hist []c29Op
	}
	start := func(hist []c29Op) (*c29Real, *c29Ref) {
		ref := &c29Ref{subject: c29InitialSubject(), substitute: c29InitialSubstitute()}
		w := c29NewReal(ref.subject, ref.substitute)
		for _, h := range hist {
			_, apply, _ := ref.expect(h)
			if got := w.apply(h); got.Panic == "" {
				apply()
			}
		}
		if len(hist) > 0 && (!r.same(w.substitute, r.initSubst) || !r.same(w.subject, c29Sorted(ref.subject))) {
			w.diverged = true // reported at the step that evaluated the diverging operation
		}
		return w, ref
	}
	frontier := []node{{}}
	all := []node{}
	r.states[c29StateKey(&c29Ref{subject: c29InitialSubject(), substitute: c29InitialSubstitute()})] = true
	transitions, pairs, newSeqs := 0, 0, 0
	defer func() {
		r.extra["explicit_state_transitions"] = transitions
		r.extra["explicit_state_pair_suffixes"] = pairs
		r.extra["explicit_state_states"] = len(r.states)
		r.extra["explicit_state_sequences_longer_than_part_a"] = newSeqs
	}()
	depthOf := 0
	for d := 0; d < maxDepth && len(frontier) > 0; d++ {
		var next []node
		for _, n := range frontier {
			all = append(all, n)
			for i, op := range ops {
				if i%16 == 0 && r.timeUp() {
					return false
				}
				w, ref := start(n.hist)
				nt := r.step(w, ref, n.hist, op)
				transitions++
				if len(n.hist)+1 > lenA {
					newSeqs++
					if nt {
						r.nontrivial++
					}
				}
				if k := c29StateKey(ref); !r.states[k] {
					r.states[k] = true
					next = append(next, node{hist: append(append([]c29Op{}, n.hist...), op)})
					depthOf = d + 1
				}
			}
		}
		frontier = next
	}
	r.extra["explicit_state_max_history_len"] = depthOf
	if len(frontier) != 0 {
		return false
	}
	for _, n := range all {
		for _, o1 := range ops {
			if r.timeUp() {
				return false
			}
			pre := append(append([]c29Op{}, n.hist...), o1)
			for _, o2 := range ops {
				w, ref := start(pre)
				nt := r.step(w, ref, pre, o2)
				pairs++
				if len(pre)+1 > lenA {
					newSeqs++
					if nt {
						r.nontrivial++
					}
				}
				if len(r.samples) < 12 && nt && pairs%50021 == 3 {
					r.sample(append(append([]c29Op{}, pre...), o2), w)
				}
			}
		}
	}
	return true
}

// live runs one sequence on a single pair of live stores (no re-materialisation between steps).
func (r *c29Run) live(seq []c29Op) {
	ref := &c29Ref{subject: c29InitialSubject(), substitute: c29InitialSubstitute()}
	w := c29NewReal(ref.subject, ref.substitute)
	for i, op := range seq {
		r.step(w, ref, seq[:i], op)
	}
}

func (r *c29Run) finish() int {
	wall := time.Since(r.start).Seconds()
	cov := map[string]any{
		"evaluations":         r.evals,
		"distinct_nontrivial": r.nontrivial,
		"sequences":           r.sequences,
		"rule":                "part A: every operation sequence of length <= individually_enumerated_max_len over the alphabet (6 operation kinds x 11 keys, all 121 (start,end) pairs for both iteration directions), each enumerated exactly once on fresh stores; part B: explicit-state search de-duplicated on the contents of both stores, run to its fixpoint, each reachable state expanded on live stores with every operation and every pair of operations (sequences no longer than part A's bound are not counted again). evaluations counts checked operation applications: the returned value is compared with the two-map reference and both underlying real stores are compared with the reference maps after every single operation. A sequence counts as non-trivial when its last operation returns routed data (non-nil get, has=true, non-empty iteration) or changes the subject store",
		"samples":             r.samples,
		"exhaustive":          !r.capped,
		"outcomes":            r.outcomes,
		"store_panics_by_op":  r.panics,
		"unexpected_panics":   r.unexpPanic,
	}
	for k, v := range r.extra {
		cov[k] = v
	}
	ev := map[string]any{
		"property_id": "C29", "tier": r.tier, "seed": r.seed, "level": "exploration",
		"coverage": cov,
		"assumptions": []string{
			"the two client stores are real store/v2 dbadapter stores over cosmos-db MemDB (not IAVL behind a prefix store); the recovery store under test is the real internal/types.ClientRecoveryStore",
			"operations whose stripped key is empty make the in-memory store panic; they are counted as a separate outcome class and only the store contents are checked after them",
		},
		"wall_s": wall, "violations": r.violations,
	}
	if os.Getenv("VERIF_REPLAY") == "" {
		bz, err := json.MarshalIndent(ev, "", " ")
		if err == nil {
			dir := filepath.Join(r.root, "evidence")
			if d := os.Getenv("VERIF_EVIDENCE_DIR"); d != "" { // development aid (tools/seedregress.sh)
				dir = d
			}
			_ = os.MkdirAll(dir, 0o755)
			err = os.WriteFile(filepath.Join(dir, "C29.json"), bz, 0o644)
		}
		if err != nil {
			r.broken = append(r.broken, "evidence: "+err.Error())
		}
	}
	delete(cov, "samples")
	sb, _ := json.Marshal(cov)
	for _, b := range r.broken {
		fmt.Printf("HARNESS-ERROR property=C29 %s\n", b)
	}
	fmt.Printf("RESULT property=C29 tier=%s violations=%d wall_s=%.1f coverage=%s\n", r.tier, r.violations, wall, sb)
	switch {
	case len(r.broken) > 0:
		return 2
	case r.violations > 0:
		return 1
	}
	return 0
}

func TestVerifC29(t *testing.T) {
	r := &c29Run{root: os.Getenv("VERIF_ROOT"), tier: os.Getenv("VERIF_TIER"), start: time.Now(),
		panics: map[string]int{}, unexpPanic: map[string]int{}, outcomes: map[string]int{}, seenViol: map[string]bool{}, extra: map[string]any{}, byLen: map[int]int{}, states: map[string]bool{}}
	if r.root == "" {
		r.root = "/verif"
	}
	if r.tier != "thorough" {
		r.tier = "quick"
	}
	r.seed, _ = strconv.ParseInt(os.Getenv("VERIF_SEED"), 10, 64)
	r.budget = 100 * time.Second
	if r.tier == "thorough" {
		r.budget = 20 * time.Minute
	}
	if b, err := strconv.Atoi(os.Getenv("VERIF_BUDGET_S")); err == nil {
		r.budget = time.Duration(b) * time.Second
	}
	r.initSubst = c29Sorted(c29InitialSubstitute())
	code := 2
	func() {
		defer func() {
			if p := recover(); p != nil {
				r.broken = append(r.broken, fmt.Sprint("check panicked: ", p))
			}
			code = r.finish()
		}()
		if rp := os.Getenv("VERIF_REPLAY"); rp != "" {
			bz, err := os.ReadFile(rp)
			var art struct {
				Replay struct {
					Ops []c29Op `json:"ops"`
				} `json:"replay"`
			}
			if err == nil {
				err = json.Unmarshal(bz, &art)
			}
			if err != nil {
				r.broken = append(r.broken, "replay: "+err.Error())
				return
			}
			r.live(art.Replay.Ops)
			r.sequences = 1
			return
		}
		// self-check: the fixture is what the reference thinks it is, and routing is observable
		{
			ref := &c29Ref{subject: c29InitialSubject(), substitute: c29InitialSubstitute()}
			w := c29NewReal(ref.subject, ref.substitute)
			if !c29EqKVs(c29Dump(w.subject), c29Sorted(ref.subject)) || !c29EqKVs(c29Dump(w.substitute), r.initSubst) {
				r.broken = append(r.broken, "fixture stores differ from the reference maps")
				return
			}
		}
		// quick: 1 written value, every sequence of <= 2 ops individually, explicit-state part to its fixpoint;
		// thorough: 2 written values, every sequence of <= 3 ops individually, explicit-state part to its fixpoint.
		values := []string{"w1"}
		lenA := 2
		if r.tier == "thorough" {
			values = []string{"w1", "w2"}
			lenA = 3
		}
		ops := c29Alphabet(values)
		r.extra["alphabet_ops"] = len(ops)
		r.extra["written_values"] = values
		r.extra["individually_enumerated_max_len"] = lenA
		{
			var names []string
			for _, k := range c29Keys() {
				if k == nil {
					names = append(names, "<nil>")
				} else {
					names = append(names, *k)
				}
			}
			r.extra["keys"] = names
		}
		root := &c29Ref{subject: c29InitialSubject(), substitute: c29InitialSubstitute()}
		// part A: every sequence individually, no state de-duplication
		for d := 1; d <= lenA; d++ {
			r.enumerate(ops, root, nil, d)
		}
		for d := 1; d <= lenA; d++ {
			r.extra[fmt.Sprintf("sequences_len_%d", d)] = r.byLen[d]
		}
		want := 0
		for d, p := 1, 1; d <= lenA; d++ {
			p *= len(ops)
			want += p
		}
		if !r.capped && r.sequences != want {
			r.broken = append(r.broken, fmt.Sprintf("enumerated %d sequences, expected %d", r.sequences, want))
		}
		// part B: explicit-state search on live stores, de-duplicated on the contents of both stores
		r.fullDump = true
		fix := r.explore(ops, 8, lenA)
		r.extra["explicit_state_fixpoint"] = fix
		if md, ok := r.extra["explicit_state_max_history_len"].(int); ok {
			r.extra["max_sequence_len_covered_modulo_state"] = md + 2
		}
		if !fix && !r.capped {
			r.broken = append(r.broken, "explicit-state part did not reach its fixpoint within depth 8")
		}
		if r.nontrivial < 2 && !r.capped {
			r.broken = append(r.broken, "no non-trivial sequence was generated")
		}
	}()
	if code != 0 {
		t.Fail()
		// exit status: `go test` reports failure (1); run.sh maps HARNESS-ERROR lines to 2
	}
}
