#!/bin/bash
# /verif/overlay/c29/run.sh <quick|thorough>
# Decides C29 by injecting verif_c29_test.go into the 08-wasm module's internal/types package with
# `go test -overlay` (the type under test lives in an internal package of a separate Go module, so it
# cannot be linked into the main harness). /repo stays untouched.
# Exit status: 0 held, 1 violation, 2 harness error.
#   VERIF_REPLAY=<file>       re-run one recorded operation sequence
#   VERIF_OVERLAY_EXTRA=<json file {"Replace":{...}}>   merged into the overlay (used to demonstrate
#                             detection by replacing store.go with a mutated copy); builds a throw-away binary
set -u
TIER="${1:-quick}"
case "$TIER" in quick|thorough) ;; *) echo "usage: $0 quick|thorough" >&2; exit 2;; esac
HERE="$(cd "$(dirname "$0")" && pwd)"
export VERIF_ROOT="${VERIF_ROOT:-$(cd "$HERE/../.." && pwd)}"
export VERIF_TIER="$TIER"
export GOFLAGS=-mod=mod GOPROXY=off
REPO="${VERIF_REPO:-/repo}"
MOD="$REPO/modules/light-clients/08-wasm"
SCRATCH="${VERIF_SCRATCH:-$VERIF_ROOT/.scratch}"
mkdir -p "$SCRATCH" "$VERIF_ROOT/evidence" "$VERIF_ROOT/replays" || { echo "HARNESS-ERROR property=C29 cannot create directories"; exit 2; }
if [ ! -d "$MOD/internal/types" ]; then echo "HARNESS-ERROR property=C29 $MOD/internal/types not found"; exit 2; fi
EXTRA="${VERIF_OVERLAY_EXTRA:-}"
if [ -n "$EXTRA" ]; then
  OV="$SCRATCH/c29-overlay.$$.json"; BIN="$SCRATCH/c29.$$.test"
  trap 'rm -f "$OV" "$BIN" "$SCRATCH/c29-out.$$.log" "$SCRATCH/c29-build.$$.log"' EXIT
else
  # stable names: an up-to-date binary is not re-linked (the link step alone takes ~40 s)
  OV="$SCRATCH/c29-overlay.json"; BIN="$SCRATCH/c29.test"
  trap 'rm -f "$SCRATCH/c29-out.$$.log" "$SCRATCH/c29-build.$$.log"' EXIT
fi
OUT="$SCRATCH/c29-out.$$.log"
BLOG="$SCRATCH/c29-build.$$.log"
(
  flock 9
  python3 - "$MOD/internal/types/verif_c29_test.go" "$HERE/verif_c29_test.go" "$EXTRA" > "$OV.tmp.$$" <<'PY' || exit 4
import json, sys
rep = {sys.argv[1]: sys.argv[2]}
if sys.argv[3]:
    rep.update(json.load(open(sys.argv[3])).get("Replace", {}))
print(json.dumps({"Replace": rep}, sort_keys=True))
PY
  if [ -f "$OV" ] && cmp -s "$OV" "$OV.tmp.$$"; then rm -f "$OV.tmp.$$"; else mv -f "$OV.tmp.$$" "$OV"; fi
  cd "$MOD" && go test -c -overlay "$OV" -vet=off -o "$BIN" ./internal/types >"$BLOG" 2>&1
) 9>"$SCRATCH/.c29-buildlock"
rc=$?
if [ $rc -ne 0 ] || [ ! -x "$BIN" ]; then
  echo "HARNESS-ERROR property=C29 build failed (rc=$rc):"; grep -v '/usr/bin/ld: ' "$BLOG" | tail -n 30; exit 2
fi
( cd "$MOD/internal/types" && "$BIN" -test.run '^TestVerifC29$' -test.v -test.count 1 -test.timeout 30m ) >"$OUT" 2>&1
rc=$?
grep -E '^(VIOLATION|  detail:|KNOWN-FINDING|HARNESS-ERROR|RESULT) ?' "$OUT"
if grep -q '^HARNESS-ERROR' "$OUT"; then exit 2; fi
if ! grep -q '^RESULT property=C29 ' "$OUT"; then
  echo "HARNESS-ERROR property=C29 no RESULT line (test binary failed, rc=$rc):"; tail -n 30 "$OUT"; exit 2
fi
if grep -q '^VIOLATION property=C29 ' "$OUT"; then exit 1; fi
if [ $rc -ne 0 ]; then echo "HARNESS-ERROR property=C29 test binary exited $rc without a violation:"; tail -n 30 "$OUT"; exit 2; fi
exit 0
