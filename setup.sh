#!/bin/bash
# Offline build of the harness (pre-warms the Go build cache so checks relink in seconds).
set -eu
cd "$(dirname "$0")"
export GOFLAGS=-mod=mod GOPROXY=off
mkdir -p bin evidence replays
cp -f /repo/go.sum harness/go.sum 2>/dev/null || true
(cd harness && go test -c -vet=off -o ../bin/harness.test .)
# pre-build the injected C29 test binary of the 08-wasm module (cold build ~70 s)
overlay/c29/run.sh quick >/dev/null 2>&1 || true
echo "setup ok"
