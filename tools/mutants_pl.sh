#!/bin/bash
# Runs the developer mutation table for the packet life-cycle checks (sequentially).
cd /verif
m() { echo "### $1 :: $5"; tools/mutate.sh "$2" "$3" "$4" -- "$5" quick 2>&1 | grep "VIOLATION\|detail\|RESULT\|HARNESS\|did not match" | cut -c1-220 | head -4; }
m c02-neq-to-gt modules/core/04-channel/keeper/packet.go 'packet\.GetSequence\(\) != nextSequenceRecv' 'packet.GetSequence() < nextSequenceRecv' C02
m c03-keep-commitment-on-timeout modules/core/04-channel/keeper/timeout.go 'k\.deletePacketCommitment\(ctx, packet\.GetSourcePort\(\), packet\.GetSourceChannel\(\), packet\.GetSequence\(\)\)' '_ = 0' C03
m c11-drop-v2-ack-exists modules/core/04-channel/v2/keeper/packet.go 'if k\.HasPacketAcknowledgement\(ctx, packet\.DestinationClient, packet\.Sequence\) \{' 'if false {' C11
m c14-no-close modules/core/04-channel/keeper/timeout.go 'channel\.State = types\.CLOSED' 'channel.State = types.OPEN' C14
m c01-v1-receipt-skip modules/core/04-channel/keeper/packet.go 'k\.SetPacketReceipt\(ctx, packet\.GetDestPort\(\), packet\.GetDestChannel\(\), packet\.GetSequence\(\)\)' '_ = 0' C01
