#!/bin/bash
# tools/runall.sh [tier] [ids...] — run every claimed check (or the given ones) sequentially and summarise.
cd /verif
tier="${1:-quick}"; shift || true
ids="$*"; [ -n "$ids" ] || ids=$(python3 -c "import json;print(' '.join(c['property_id'] for c in json.load(open('MANIFEST.json'))['checks']))")
for p in $ids; do
  s=$(date +%s); out=$(./run $p $tier 2>&1); rc=$?; e=$(( $(date +%s) - s ))
  echo "$p rc=$rc ${e}s $(echo "$out" | grep -c '^VIOLATION') violations $(echo "$out" | grep -c '^KNOWN-FINDING') known $(echo "$out" | grep -o '"exhaustive":[a-z]*' | head -1) $(echo "$out" | grep '^HARNESS' | head -1 | cut -c1-100)"
done
