#!/bin/bash
# tools/seedregress.sh [dirs...] — run every stored seed against the check of its property (quick tier) and report
# caught / MISSED. Evidence of these runs goes to .scratch/seed-evidence (the committed evidence is left alone).
cd /verif
export VERIF_EVIDENCE_DIR=/verif/.scratch/seed-evidence; mkdir -p "$VERIF_EVIDENCE_DIR"
dirs="$*"; [ -n "$dirs" ] || dirs=$(ls -d seeded/C*)
for d in $dirs; do
  id=$(basename $d); p=${id%%-*}
  if [ "$p" = C29 ]; then
    s=.scratch/seed.c29; rm -rf $s; mkdir -p $s; f=modules/light-clients/08-wasm/internal/types/store.go; mkdir -p $s/$(dirname $f); cp /repo/$f $s/$f
    (cd $s && patch -s -p1 < /verif/$d/patch.diff); echo "{\"Replace\": {\"/repo/$f\": \"/verif/$s/$f\"}}" > $s/ov.json
    out=$(VERIF_OVERLAY_EXTRA=/verif/$s/ov.json overlay/c29/run.sh quick 2>&1); rc=$?; rm -rf $s
  else
    out=$(tools/seedcheck.sh $d/patch.diff $p quick 2>&1); rc=$?
  fi
  n=$(echo "$out" | grep -c '^VIOLATION')
  if [ $rc -eq 1 ] && [ $n -gt 0 ]; then echo "$id caught ($n violations)"; else echo "$id MISSED rc=$rc $(echo "$out" | grep -E 'HARNESS|panic' | head -1 | cut -c1-120)"; fi
  rm -f replays/$p-*.json
done
