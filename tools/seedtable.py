#!/usr/bin/env python3
"""Regenerate the table of section 7.1 of DESIGN.md from seeded/*/meta.json."""
import json,glob,os,re
rows=[]
for d in sorted(glob.glob('/verif/seeded/C*')):
    mp=os.path.join(d,'meta.json')
    if not os.path.exists(mp): continue
    m=json.load(open(mp))
    res=m['check_result']
    status='**caught**' if not res.startswith('MISSED') and not res.startswith('pending') else ('**missed, then caught after strengthening**' if 'after' in res or 'now' in res else '**missed**')
    res=re.sub(r'^caught — ','',res)
    rows.append("| %s | %s (needs: %s) | %s — %s |"%(os.path.basename(d),m['change'].replace('|','\\|'),m['needs_to_manifest'].replace('|','\\|'),status,res.replace('|','\\|')))
table="| seed | change (what it needs in order to manifest) | result |\n|---|---|---|\n"+"\n".join(rows)+"\n"
p='/verif/DESIGN.md'; s=open(p).read()
a=s.index('| seed | change'); b=s.index('### 7.2')
s=s[:a]+table+"\n"+s[b:]
open(p,'w').write(s)
print(len(rows),'rows')
