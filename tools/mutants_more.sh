#!/bin/bash
# Developer mutation table, part 2 (sequential; each line: name, file, regex, replacement, check).
cd /verif
m() { echo "### $1 :: $5"; tools/mutate.sh "$2" "$3" "$4" -- "$5" quick 2>&1 | grep "VIOLATION\|detail\|RESULT\|HARNESS\|did not match" | cut -c1-200 | head -3; }
m c04-ts-gte-to-gt modules/core/04-channel/types/timeout.go 'timestamp >= t\.Timestamp' 'timestamp > t.Timestamp' C04
m c04-v2-timeout-lt-to-lte modules/core/04-channel/v2/keeper/packet.go 'if proofTimestamp < packet\.TimeoutTimestamp \{' 'if proofTimestamp+5 < packet.TimeoutTimestamp {' C04
m c05-v2-skip-counterparty-check modules/core/04-channel/v2/keeper/packet.go 'if counterparty\.ClientId != packet\.SourceClient \{\n\t\treturn errorsmod\.Wrapf\(clientv2types\.ErrInvalidCounterparty, "counterparty id \(%s\) does not match packet source id' 'if false {\n\t\treturn errorsmod.Wrapf(clientv2types.ErrInvalidCounterparty, "counterparty id (%s) does not match packet source id' C05
m c05-recv-timeout-gte-to-gt modules/core/04-channel/v2/keeper/packet.go 'if currentTimestamp >= packet\.TimeoutTimestamp \{' 'if currentTimestamp > packet.TimeoutTimestamp {' C05
m c06-v2-skip-commitment-compare modules/core/04-channel/v2/keeper/packet.go 'if !bytes\.Equal\(commitment, packetCommitment\) \{\n\t\treturn errorsmod\.Wrapf\(types\.ErrInvalidPacket, "commitment bytes are not equal: got' 'if false {\n\t\treturn errorsmod.Wrapf(types.ErrInvalidPacket, "commitment bytes are not equal: got' C06
m c08-v2-timeout-after-to-notbefore modules/core/04-channel/v2/keeper/packet.go 'if !timeout\.After\(ctx\.BlockTime\(\)\) \{' 'if timeout.Before(ctx.BlockTime()) {' C08
m c08-v1-latest-gte modules/core/04-channel/types/timeout.go 'height\.GTE\(t\.Height\)' 'height.GT(t.Height)' C08
m c09-always-write modules/core/keeper/msg_server.go 'if ack == nil \|\| ack\.Success\(\) \{\n\t\twriteFn\(\)' 'if true {\n\t\twriteFn()' C09
m c10-no-break modules/core/04-channel/v2/keeper/msg_server.go 'ctx\.EventManager\(\)\.EmitEvents\(internalerrors\.ConvertToErrorEvents\(cacheCtx\.EventManager\(\)\.Events\(\)\)\)\n\t\t\tbreak' 'ctx.EventManager().EmitEvents(internalerrors.ConvertToErrorEvents(cacheCtx.EventManager().Events()))\n\t\t\tcontinue' C10
m c12-ack-expected-state modules/core/04-channel/keeper/handshake.go 'types\.TRYOPEN, channel\.Ordering, expectedCounterparty,' 'types.INIT, channel.Ordering, expectedCounterparty,' C12
m c13-try-delay-not-bound modules/core/03-connection/keeper/handshake.go 'expectedConnection := types\.NewConnectionEnd\(types\.INIT, counterparty\.ClientId, expectedCounterparty, counterpartyVersions, delayPeriod\)' 'expectedConnection := types.NewConnectionEnd(types.INIT, counterparty.ClientId, expectedCounterparty, counterpartyVersions, 0)' C13
