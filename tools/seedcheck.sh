#!/bin/bash
# tools/seedcheck.sh <patch.diff> <check> [tier]   — run a check against /repo + patch without touching /repo
# (the patched files are materialised under .scratch and injected with go build -overlay).
set -eu
patch="$(readlink -f "$1")"; shift
d=/verif/.scratch/seed.$$; rm -rf "$d"; mkdir -p "$d"
files=$(grep '^+++ b/' "$patch" | sed 's|^+++ b/||')
for f in $files; do mkdir -p "$d/$(dirname "$f")"; cp "/repo/$f" "$d/$f" 2>/dev/null || true; done
(cd "$d" && patch -s -p1 < "$patch")
{ echo '{"Replace": {'; first=1; for f in $files; do [ $first = 1 ] || echo ','; first=0; printf '"/repo/%s": "%s/%s"' "$f" "$d" "$f"; done; echo '}}'; } > "$d/overlay.json"
VERIF_OVERLAY="$d/overlay.json" /verif/run "$@"; rc=$?
rm -rf "$d"; exit $rc
