#!/bin/bash
# tools/mutate.sh <repo-relative-file> <python-regex> <replacement> -- <check> [tier]
# Applies one textual mutation to a copy of a /repo file and runs a check against it through
# `go build -overlay` (so /repo itself is never modified). For developing / demonstrating detection.
set -eu
f="$1"; pat="$2"; rep="$3"; shift 4
mkdir -p /verif/.scratch/mut
copy="/verif/.scratch/mut/$(echo "$f" | tr / _)"
python3 - "$f" "$pat" "$rep" "$copy" <<'PY'
import re,sys
f,pat,rep,copy=sys.argv[1:5]
s=open('/repo/'+f).read()
n,k=re.subn(pat,rep,s,count=1,flags=re.S)
if k!=1: sys.exit("mutation pattern did not match exactly once: "+pat)
open(copy,'w').write(n)
PY
echo "{\"Replace\": {\"/repo/$f\": \"$copy\"}}" > /verif/.scratch/mut/overlay.json
export VERIF_EVIDENCE_DIR=/verif/.scratch/seed-evidence; mkdir -p "$VERIF_EVIDENCE_DIR"
VERIF_OVERLAY=/verif/.scratch/mut/overlay.json /verif/run "$@"
