#!/usr/bin/env python3
"""Generate /verif/MANIFEST.json from tools/checks.json (table of claimed checks)."""
import json, os, sys
root = os.path.dirname(os.path.dirname(os.path.abspath(__file__)))
tbl = json.load(open(os.path.join(root, "tools", "checks.json")))
props = [json.loads(l) for l in open(os.path.join(root, "properties.jsonl"))]
claimed = {c["id"]: c for c in tbl["checks"]}
checks, na = [], []
for p in props:
    pid = p["id"]
    c = claimed.get(pid)
    if c is None:
        na.append({"property_id": pid, "reason": tbl["not_applicable"].get(pid, "check not implemented yet in this round; design in DESIGN.md section 3")})
        continue
    checks.append({
        "property_id": pid,
        "quick_cmd": "./run %s quick" % pid,
        "thorough_cmd": "./run %s thorough" % pid,
        "evidence_file": "/verif/evidence/%s.json" % pid,
        "replay_cmd_template": "./run %s --replay {path}" % pid,
        "engine": c["engine"],
        "level_claimed": {"category": c["level"], "text": c["text"], "design_ref": c.get("design_ref", "DESIGN.md section 3 (%s)" % pid)},
        "level_note": c["note"],
        "technique": c["technique"],
    })
m = {
    "version": 1,
    "setup_cmd": "./setup.sh",
    "hooks": tbl["hooks"],
    "engines": tbl["engines"],
    "checks": checks,
    "notes": tbl["notes"],
    "not_applicable": na,
}
json.dump(m, open(os.path.join(root, "MANIFEST.json"), "w"), indent=1)
print("checks:", len(checks), "not_applicable:", len(na))
