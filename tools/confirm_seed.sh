#!/bin/bash
# tools/confirm_seed.sh <id> <pkgdir> <run-regex> [extra test pkgs...]
# In the seeding agent's scratch worktree /tmp/wt-<id> (change applied, demo test in place):
#  1. go build ./...   2. demo test must FAIL with the change   3. existing tests of the touched package pass
#  (demo excluded)     4. revert the change: demo must PASS.   Writes /verif/seeded/<id>/confirm.log
id="$1"; pkg="$2"; rx="$3"; shift 3
wt=/tmp/wt-$id; case "$id" in *-2) wt=/tmp/wt2-${id%-2};; *-3) wt=/tmp/wt3-${id%-3};; *-4) wt=/tmp/wt4-${id%-4};; esac; out=/verif/seeded/$id/confirm.log
export GOFLAGS=-mod=mod GOPROXY=off
cd "$wt" || exit 2
{
echo "== confirm $id $(date -u +%FT%TZ) worktree $wt (HEAD $(git rev-parse --short HEAD))"
git apply --check -R /verif/seeded/$id/patch.diff && echo "patch is applied in the worktree"
echo "== go build ./..."; go build ./... && echo BUILD-OK
echo "== demo with change (must fail)"; go test -vet=off -count=1 -timeout 40m "$pkg" -run "$rx" 2>&1 | tail -5; 
if go test -vet=off -count=1 -timeout 40m "$pkg" -run "$rx" >/dev/null 2>&1; then echo "DEMO-WITH-CHANGE: PASS (unexpected)"; else echo "DEMO-WITH-CHANGE: FAIL (expected)"; fi
echo "== existing tests of touched packages with the change (demo skipped)"
go test -vet=off -count=1 -timeout 60m -skip "$rx" "$pkg" "$@" 2>&1 | grep -v "no test files" | tail -15
git apply -R /verif/seeded/$id/patch.diff
echo "== demo without change (must pass)"
if go test -vet=off -count=1 -timeout 40m "$pkg" -run "$rx" >/dev/null 2>&1; then echo "DEMO-WITHOUT-CHANGE: PASS (expected)"; else echo "DEMO-WITHOUT-CHANGE: FAIL (unexpected)"; fi
git apply /verif/seeded/$id/patch.diff
} > "$out" 2>&1
tail -3 "$out"
